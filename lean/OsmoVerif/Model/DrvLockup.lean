/- line protocol for the `lockup` engine.  Times/durations: raw nanoseconds; end time 0 = not unlocking;
coins `denom:amount,denom:amount` (`-` = empty); lock id lists ascending, space separated. -/
import OsmoVerif.Model.Lockup
import OsmoVerif.Model.LockupGenesis
namespace OsmoVerif.Lockup

def initLockup : State := {}

def parseCoins (s : String) : Option Coins :=
  if s = "-" then some [] else
  (s.splitOn ",").mapM fun c =>
    match c.splitOn ":" with
    | [d, a] => a.toInt?.map fun a => (d, a)
    | _ => none

def parseFunding : List String → Option (List ((Addr × Denom) × Int))
  | [] => some []
  | o :: d :: a :: rest => do
    let a ← a.toInt?
    let r ← parseFunding rest
    some (((o, d), a) :: r)
  | _ => none

def showCoins (c : Coins) : String :=
  if c.isEmpty then "-" else ",".intercalate (c.map fun x => s!"{x.1}:{x.2}")

def showIds (l : List Nat) : String := "ok" ++ String.join (l.map fun i => s!" {i}")

def showTime (t : Option Int) : String := match t with | none => "0" | some t => toString t

def showLock (l : Lock) : String :=
  s!"{l.id} {l.owner} {l.duration} {showTime l.endTime} {showCoins l.coins} {if l.rewardReceiver = "" then "-" else l.rewardReceiver}"

def showKey (k : RefKey) : String :=
  let u := if k.unlocking then "1" else "0"
  match k.key with
  | .dur d => s!"{u}/D/{d}"
  | .ownerDur o d => s!"{u}/OD/{o}/{d}"
  | .denomDur n d => s!"{u}/ND/{n}/{d}"
  | .ownerDenomDur o n d => s!"{u}/OND/{o}/{n}/{d}"
  | .time t => s!"{u}/T/{showTime t}"
  | .ownerTime o t => s!"{u}/OT/{o}/{showTime t}"
  | .denomTime n t => s!"{u}/NT/{n}/{showTime t}"
  | .ownerDenomTime o n t => s!"{u}/ONT/{o}/{n}/{showTime t}"

def sortStr (l : List String) : List String := l.mergeSort (fun a b => decide (a ≤ b))

def sortLocks (l : List Lock) : List Lock := l.mergeSort (fun a b => decide (a.id ≤ b.id))

def resOk (r : Option (State × Nat)) (st : State) (withId : Bool) : State × String :=
  match r with
  | none => (st, "err")
  | some (s', id) => (s', if withId then s!"ok {id}" else "ok")

def resOk' (r : Option State) (st : State) : State × String :=
  match r with
  | none => (st, "err")
  | some s' => (s', "ok")

def stepLockup (st : State) (op : String) (args : List String) : State × String :=
  match op, args with
  | "reset", allowed :: funding =>
    match parseFunding funding with
    | some f => (initState f (if allowed = "-" then [] else [allowed]), "ok")
    | none => (st, "bad-op")
  | "lock", [_t, o, d, c] =>
    match d.toInt?, parseCoins c with
    | some d, some c => resOk (msgLockTokens st o c d) st true
    | _, _ => (st, "bad-op")
  | "addtolock", [_t, id, o, dn, a] =>
    match id.toNat?, a.toInt? with
    | some id, some a => resOk' (addTokensToLockByID st id o dn a) st
    | _, _ => (st, "bad-op")
  | "extend", [_t, o, id, d] =>
    match id.toNat?, d.toInt? with
    | some id, some d => resOk' (msgExtendLockup st o id d) st
    | _, _ => (st, "bad-op")
  | "beginunlock", [t, o, id, c] =>
    match t.toInt?, id.toNat?, parseCoins c with
    | some t, some id, some c => resOk (msgBeginUnlocking t st o id c) st true
    | _, _, _ => (st, "bad-op")
  | "beginunlockall", [t, o] =>
    match t.toInt? with
    | some t => resOk' (msgBeginUnlockingAll t st o) st
    | _ => (st, "bad-op")
  | "unlock", [t, id] =>
    match t.toInt?, id.toNat? with
    | some t, some id => resOk' (unlockMaturedLock t st id) st
    | _, _ => (st, "bad-op")
  | "withdraw", [t, n] =>
    match t.toInt?, n.toNat? with
    | some t, some n => resOk' (withdrawMaturedLocks t st n) st
    | _, _ => (st, "bad-op")
  | "setreceiver", [_t, o, id, r] =>
    match id.toNat? with
    | some id => resOk' (setRewardReceiver st id o r) st
    | _ => (st, "bad-op")
  | "forceunlock", [t, o, id, c] =>
    match t.toInt?, id.toNat?, parseCoins c with
    | some t, some id, some c => resOk' (msgForceUnlock t st o id c) st
    | _, _, _ => (st, "bad-op")
  -- CL keeper: shares minted into the module account and locked (CreateLockNoSend); `u` = 1: begins unlocking at once
  | "cllock", [t, o, d, c, u] =>
    match t.toInt?, d.toInt?, parseCoins c with
    | some t, some d, some [(dn, a)] => resOk (clLock t st o dn a d (u = "1")) st true
    | _, _, _ => (st, "bad-op")
  -- real ExportGenesis, lockup store wiped, real InitGenesis (Model/LockupGenesis.lean)
  | "exportimport", [] =>
    match exportImport st with
    | none => (st, "panic")
    | some (s', _) => (s', "ok")
  | "params", [] => (st, "ok" ++ String.join (st.forceAllowed.map fun a => " " ++ a))
  -- queries
  | "modbal", [dn] => (st, s!"ok {aget st.modBal dn}")
  | "bal", [o, dn] => (st, s!"ok {aget st.bal (o, dn)}")
  | "accum", [dn, d] =>
    match d.toInt? with
    | some d => (st, s!"ok {accumQuery st dn d}")
    | none => (st, "bad-op")
  | "accumempty", [d] =>    -- the accumulation store of denom ""
    match d.toInt? with
    | some d => (st, s!"ok {accumQuery st "" d}")
    | none => (st, "bad-op")
  | "getlock", [id] =>
    match id.toNat? with
    | some id => (st, match getLock st id with | none => "err" | some l => "ok " ++ showLock l)
    | none => (st, "bad-op")
  | "lastid", [] => (st, s!"ok {st.lastLockId}")
  | "all", [] => (st, showIds (qAll st))
  | "byowner", [o] => (st, showIds (qOwner st o))
  | "ownerlonger", [o, d, nu] =>
    match d.toInt? with
    | some d => (st, showIds (qOwnerLonger st o d (nu = "1")))
    | none => (st, "bad-op")
  | "ownerduration", [o, d] =>
    match d.toInt? with
    | some d => (st, showIds (qOwnerDuration st o d))
    | none => (st, "bad-op")
  | "byownerdenom", [o, dn, d, nu] =>
    match d.toInt? with
    | some d => (st, showIds (qOwnerDenomLonger st o dn d (nu = "1")))
    | none => (st, "bad-op")
  | "ownerdenomduration", [o, dn, d] =>
    match d.toInt? with
    | some d => (st, showIds (qOwnerDenomDurationNotUnlocking st o dn d))
    | none => (st, "bad-op")
  | "bydenom", [dn, d] =>
    match d.toInt? with
    | some d => (st, showIds (qDenomLonger st dn d))
    | none => (st, "bad-op")
  | "unlockingbefore", [t] =>
    match t.toInt? with
    | some t => (st, showIds (qUnlockingBefore st t))
    | none => (st, "bad-op")
  | "unlockingafter", [t] =>
    match t.toInt? with
    | some t => (st, showIds (qUnlockingAfter st t))
    | none => (st, "bad-op")
  | "ownerpasttime", [now, o, ts] =>
    match now.toInt?, ts.toInt? with
    | some now, some ts => (st, showIds (qOwnerPastTime st now o ts))
    | _, _ => (st, "bad-op")
  | "ownerunlockedbefore", [now, o, ts] =>
    match now.toInt?, ts.toInt? with
    | some now, some ts => (st, showIds (qOwnerUnlockedBefore st now o ts))
    | _, _ => (st, "bad-op")
  | "ownerdenompasttime", [now, o, dn, ts] =>
    match now.toInt?, ts.toInt? with
    | some now, some ts => (st, showIds (qOwnerDenomPastTime st now o dn ts))
    | _, _ => (st, "bad-op")
  | "denompasttime", [now, dn, ts] =>
    match now.toInt?, ts.toInt? with
    | some now, some ts => (st, showIds (qDenomPastTime st now dn ts))
    | _, _ => (st, "bad-op")
  | "dump", [] => (st, "ok " ++ " | ".intercalate ((sortLocks st.locks).map showLock))
  | "refs", [] => (st, "ok " ++ " ".intercalate (sortStr (st.refs.map fun r => s!"{showKey r.1}/{r.2}")))
  | _, _ => (st, "bad-op")

end OsmoVerif.Lockup
