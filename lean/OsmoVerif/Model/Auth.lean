/-
Model of the AUTHORISATION DECISION (+ the record effect) of every state-changing message that acts
on an owned object (property C20):

* x/tokenfactory  msg_server.go, bankactions.go, createdenom.go, admins.go, before_send.go
* x/lockup        keeper/msg_server.go, keeper/lock.go
* x/concentrated-liquidity  msg_server.go, lp.go, position.go, spread_rewards.go, incentives.go
* x/superfluid    keeper/msg_server.go, keeper/stake.go

Every handler is an `Option State` function mirroring the order of the checks in the Go code
(`none` = the handler returns an error or panics; the transaction is then discarded).  `step` returns
the INPUT state on any rejection.  The swap/liquidity math, reward amounts and lockup balances are
not modelled: only who may act, what is rejected and which record / bank entry changes.

Addresses and denoms are `String`s.  What the model cannot compute (is a string a well-formed bech32
address, which addresses are `maccPerms` module accounts, which contracts/validators exist) is part of
the state as explicit sets (`valid`, `moduleAccs`, `contracts`, `validators`).  Core only.
-/
namespace OsmoVerif.Auth

inductive Result | ok | err
  deriving DecidableEq, Repr

/-! ## association lists (stores) -/
section AList
variable {κ : Type} {α : Type} [DecidableEq κ]

def aget (k : κ) : List (κ × α) → Option α
  | [] => none
  | (k', v) :: t => if k' = k then some v else aget k t

def aerase (k : κ) : List (κ × α) → List (κ × α)
  | [] => []
  | (k', v) :: t => if k' = k then aerase k t else (k', v) :: aerase k t

def aset (k : κ) (v : α) (l : List (κ × α)) : List (κ × α) := (k, v) :: aerase k l
end AList

/-! ## records -/

/-- superfluid status of a lock: no synthetic lock / staking synthetic lock / unstaking synthetic lock -/
inductive SF | none | bonded | undelegating
  deriving DecidableEq, Repr

/-- what a lock holds, as far as a guard looks at it: gamm shares of a balancer pool
(`gamm/pool/<n>`), shares of a full-range concentrated position (`cl/pool/<n>`), `uosmo`, anything else -/
inductive DKind | other | osmo | gamm (pool : Nat) | cl (pool : Nat)
  deriving DecidableEq, Repr

def DKind.isGamm : DKind → Bool
  | .gamm _ => true
  | _ => false

structure Lock where
  owner : String
  recv : String            -- reward receiver; "" = the owner (DefaultOwnerReceiverPlaceholder)
  dur : Int                -- seconds
  unlocking : Bool         -- EndTime set
  amt : Int                -- the single locked coin
  sfAsset : Bool           -- the locked denom is a registered superfluid asset
  sf : SF
  dk : DKind := .other     -- kind of the locked denom
  deriving DecidableEq, Repr

structure Position where
  owner : String           -- position.Address
  pool : Nat
  locked : Bool            -- has an active (not matured) underlying lock
  lockId : Nat := 0        -- id of that lock (0 = none / not announced)
  deriving DecidableEq, Repr

/-- requested liquidity of a withdrawal relative to the position's liquidity (the math is not modelled) -/
inductive WKind | full | part | excess | neg
  deriving DecidableEq, Repr

structure State where
  -- environment
  valid : List String          -- strings for which sdk.AccAddressFromBech32 succeeds
  moduleAccs : List String     -- addresses of the maccPerms module accounts (tokenfactory permAddrMap / permAddrs)
  contracts : List String      -- existing cosmwasm contracts
  nativeSupply : List String   -- non-factory denoms with bank supply
  feeDenom : String
  fee : Int                    -- tokenfactory DenomCreationFee (0 = nil)
  communityPool : String       -- distribution module account
  gov : String                 -- gov module account
  allowed : List String        -- lockup ForceUnlockAllowedAddresses
  unbonding : Int              -- staking unbonding time (seconds)
  validators : List String
  -- tokenfactory + bank
  admins : List (String × String)            -- denom ↦ DenomAuthorityMetadata.Admin
  metadata : List (String × String)          -- bank denom metadata: base denom ↦ description
  hooks : List (String × String)             -- denom ↦ before-send hook contract
  bal : List ((String × String) × Int)       -- (address, denom) ↦ balance
  supply : List (String × Int)
  -- lockup / superfluid
  locks : List (Nat × Lock)
  lastLock : Nat
  -- concentrated liquidity
  positions : List (Nat × Position)
  nextPos : Nat
  -- valset-pref / staking: addresses for which `GetDelegationPreferences` succeeds (a validator-set
  -- preference or at least one staking delegation)
  delegators : List String := []
  -- gamm: stableswap pool ↦ its ScalingFactorController ("" = none was named at creation)
  controllers : List (Nat × String) := []
  -- superfluid: balancer pools on the unpool allow-list (`GetUnpoolAllowedPools`)
  unpoolAllowed : List Nat := []
  deriving Repr

inductive Msg
  | tfCreate (sender sub : String)
  | tfMint (sender denom : String) (amt : Int) (to : String)
  | tfBurn (sender denom : String) (amt : Int) (frm : String)
  | tfForce (sender denom : String) (amt : Int) (frm to : String)
  | tfChangeAdmin (sender denom newAdmin : String)
  | tfSetMeta (sender base : String) (metaValid : Bool) (desc : String)
  | tfSetHook (sender denom cw : String)
  | lkBegin (sender : String) (id : Nat) (amt : Int)
  | lkExtend (sender : String) (id : Nat) (dur : Int)
  | lkSetRecv (sender : String) (id : Nat) (recv : String)
  | lkForce (sender : String) (id : Nat) (amt : Int)
  | clWithdraw (sender : String) (id : Nat) (k : WKind)
  | clAdd (sender : String) (id : Nat) (a0 a1 : Int)
  | clFees (sender : String) (ids : List Nat)
  | clIncentives (sender : String) (ids : List Nat)
  | clTransfer (sender : String) (ids : List Nat) (newOwner : String)
  | sfDelegate (sender : String) (id : Nat) (val : String)
  | sfUndelegate (sender : String) (id : Nat)
  | sfUnbond (sender : String) (id : Nat)
  | sfUndelegateUnbond (sender : String) (id : Nat) (amt : Int)
  | lkBeginAll (sender : String)
  | sfConvert (sender : String) (id : Nat) (val : String)
  | sfMigrate (sender : String) (id : Nat)
  | sfAddToCL (sender : String) (id : Nat) (a0 a1 : Int) (newAmt : Int)
  | vpDelegateBonded (sender : String) (id : Nat)
  | gmScaling (sender : String) (pool : Nat) (factorsOk : Bool)
  | sfUnpoolNoLock (sender : String) (pool : Nat)
  deriving Repr

/-! ## bank -/

def getBal (b : List ((String × String) × Int)) (a d : String) : Int :=
  match aget (a, d) b with
  | some v => v
  | none => 0          -- bank: an absent balance entry IS a zero balance

def addBal (b : List ((String × String) × Int)) (a d : String) (x : Int) : List ((String × String) × Int) :=
  aset (a, d) (getBal b a d + x) b

/-- bank SendCoins: fails on insufficient funds; subtract first, then add (so from = to is a no-op). -/
def pay (b : List ((String × String) × Int)) (frm to d : String) (x : Int) : Option (List ((String × String) × Int)) :=
  if getBal b frm d < x then none else
  some (addBal (addBal b frm d (-x)) to d x)

def getSupply (s : State) (d : String) : Int :=
  match aget d s.supply with
  | some v => v
  | none => 0

def hasSupply (s : State) (d : String) : Bool :=
  decide (d ∈ s.nativeSupply) || decide (getSupply s d > 0)

/-! ## tokenfactory -/

/-- `GetAuthorityMetadata(denom).GetAdmin()`: the store value is unmarshalled even when the key is
absent (`proto.Unmarshal(nil)` succeeds), so an unknown denom has admin "". -/
def adminOf (s : State) (denom : String) : String :=
  match aget denom s.admins with
  | some a => a
  | none => ""

def mkDenom (creator sub : String) : String := "factory/" ++ creator ++ "/" ++ sub

def denomCharOk (c : Char) : Bool :=
  c.isAlphanum || c == '/' || c == ':' || c == '.' || c == '_' || c == '-'

/-- sdk.ValidateDenom: `[a-zA-Z][a-zA-Z0-9/:._-]{2,127}` -/
def validDenom (d : String) : Bool :=
  match d.toList with
  | [] => false
  | c :: cs => c.isAlpha && cs.all denomCharOk && decide (2 ≤ cs.length) && decide (cs.length ≤ 127)

def splitSlash : List Char → List (List Char)
  | [] => [[]]
  | c :: cs =>
    if c = '/' then [] :: splitSlash cs else
    match splitSlash cs with
    | [] => [[c]]
    | h :: t => (c :: h) :: t

/-- `types.DeconstructDenom` succeeds: valid denom, ≥ 3 parts, prefix `factory`, creator a bech32 address. -/
def isFactoryDenom (s : State) (d : String) : Bool :=
  validDenom d &&
  match splitSlash d.toList with
  | p :: c :: _ :: _ => decide (String.ofList p = "factory") && decide (String.ofList c ∈ s.valid)
  | _ => false

/-- `Keeper.CreateDenom`: validateCreateDenom, chargeForCreateDenom, createDenomAfterValidation.
The namespace is always the sender's: there is no creator field in the message. -/
def tfCreate (s : State) (sender sub : String) : Option State :=
  if hasSupply s sub then none else                       -- "temporary" native-denom check
  if sub.utf8ByteSize > 44 then none else                 -- ErrSubdenomTooLong
  if sender.utf8ByteSize > 75 then none else              -- ErrCreatorTooLong
  if '/' ∈ sender.toList then none else                   -- ErrInvalidCreator
  if !validDenom (mkDenom sender sub) then none else
  if (aget (mkDenom sender sub) s.metadata).isSome then none else  -- ErrDenomExists
  if sender ∉ s.valid then none else                      -- AccAddressFromBech32 / authority metadata Validate
  match (if s.fee > 0 then pay s.bal sender s.communityPool s.feeDenom s.fee else some s.bal) with
  | none => none
  | some b => some { s with bal := b,
                            metadata := aset (mkDenom sender sub) "" s.metadata,
                            admins := aset (mkDenom sender sub) sender s.admins }

/-- `if msg.MintToAddress == "" { msg.MintToAddress = msg.Sender }` (same for BurnFromAddress) -/
def orSender (x sender : String) : String := if x = "" then sender else x

def tfMint (s : State) (sender denom : String) (amt : Int) (to : String) : Option State :=
  if (aget denom s.metadata).isNone then none else        -- ErrDenomDoesNotExist
  if sender ≠ adminOf s denom then none else              -- msg.Sender != authorityMetadata.GetAdmin()
  if !isFactoryDenom s denom then none else
  if orSender to sender ∉ s.valid then none else
  if orSender to sender ∈ s.moduleAccs then none else     -- ErrMintToModuleAccount
  if amt < 0 then none else                               -- sdk.NewCoins panics
  some { s with bal := addBal s.bal (orSender to sender) denom amt, supply := aset denom (getSupply s denom + amt) s.supply }

def tfBurn (s : State) (sender denom : String) (amt : Int) (frm : String) : Option State :=
  if sender ≠ adminOf s denom then none else
  -- msg_server.go looks up `sdk.AccAddress(msg.BurnFromAddress)` (the bytes of the bech32 STRING):
  -- never an existing account, the check is inert; the effective one is IsModuleAcc in burnFrom.
  if !isFactoryDenom s denom then none else
  if orSender frm sender ∉ s.valid then none else
  if orSender frm sender ∈ s.moduleAccs then none else    -- ErrBurnFromModuleAccount
  if amt < 0 then none else
  if getBal s.bal (orSender frm sender) denom < amt then none else
  some { s with bal := addBal s.bal (orSender frm sender) denom (-amt), supply := aset denom (getSupply s denom - amt) s.supply }

def tfForce (s : State) (sender denom : String) (amt : Int) (frm to : String) : Option State :=
  if sender ≠ adminOf s denom then none else
  if !isFactoryDenom s denom then none else
  if frm ∉ s.valid then none else
  if to ∉ s.valid then none else
  if frm ∈ s.moduleAccs then none else                    -- "send from module acc not available"
  if to ∈ s.moduleAccs then none else                     -- "send to module acc not available"
  if amt < 0 then none else
  match pay s.bal frm to denom amt with
  | none => none
  | some b => some { s with bal := b }

def tfChangeAdmin (s : State) (sender denom newAdmin : String) : Option State :=
  if sender ≠ adminOf s denom then none else
  if newAdmin ≠ "" ∧ newAdmin ∉ s.valid then none else    -- DenomAuthorityMetadata.Validate
  some { s with admins := aset denom newAdmin s.admins }

def tfSetMeta (s : State) (sender base : String) (metaValid : Bool) (desc : String) : Option State :=
  if !metaValid then none else                            -- msg.Metadata.Validate()
  if sender ≠ adminOf s base then none else
  some { s with metadata := aset base desc s.metadata }

def tfSetHook (s : State) (sender denom cw : String) : Option State :=
  if sender ≠ adminOf s denom then none else
  if !isFactoryDenom s denom then none else
  if cw = "" then some { s with hooks := aerase denom s.hooks } else
  if cw ∉ s.valid then none else
  if cw ∉ s.contracts then none else                      -- Sudo: "no such contract"
  some { s with hooks := aset denom cw s.hooks }

/-! ## lockup -/

def lkBegin (s : State) (sender : String) (id : Nat) (amt : Int) : Option State :=
  match aget id s.locks with
  | none => none
  | some l =>
    if sender ≠ l.owner then none else                    -- msg.Owner != lock.Owner
    if l.sf ≠ SF.none then none else                      -- HasAnySyntheticLockups
    if amt < 0 ∨ amt > l.amt then none else               -- !coins.IsAllLTE(lock.Coins)
    if l.unlocking then none else
    if amt = 0 ∨ amt = l.amt then
      some { s with locks := aset id { l with unlocking := true } s.locks }
    else
      some { s with locks := aset (s.lastLock + 1) { l with amt := amt, unlocking := true }
                               (aset id { l with amt := l.amt - amt } s.locks),
                    lastLock := s.lastLock + 1 }

def lkExtend (s : State) (sender : String) (id : Nat) (dur : Int) : Option State :=
  if sender ∉ s.valid then none else
  match aget id s.locks with
  | none => none
  | some l =>
    if l.owner ≠ sender then none else                    -- lock.GetOwner() != owner.String()
    if l.unlocking then none else
    if l.sf ≠ SF.none then none else
    if dur = 0 then some s else
    if dur ≤ l.dur then none else
    some { s with locks := aset id { l with dur := dur } s.locks }

def lkSetRecv (s : State) (sender : String) (id : Nat) (recv : String) : Option State :=
  if sender ∉ s.valid then none else
  if recv ∉ s.valid then none else
  match aget id s.locks with
  | none => none
  | some l =>
    if l.owner ≠ sender then none else                    -- lock.GetOwner() != owner.String()
    if l.recv = (if l.owner = recv then "" else recv) then none else    -- ErrRewardReceiverIsSame
    some { s with locks := aset id { l with recv := (if l.owner = recv then "" else recv) } s.locks }

def lkForce (s : State) (sender : String) (id : Nat) (amt : Int) : Option State :=
  match aget id s.locks with
  | none => none
  | some l =>
    if l.owner ≠ sender then none else                    -- lock.Owner != msg.Owner
    if l.owner ∉ s.allowed then none else                 -- addr == lock.Owner && addr == msg.Owner for an allowed addr
    if l.sf ≠ SF.none then none else
    if amt < 0 ∨ amt > l.amt then none else
    if amt = 0 ∨ amt = l.amt then
      some { s with locks := aerase id s.locks }
    else                                                  -- SplitLock, the split part is unlocked and deleted
      some { s with locks := aset id { l with amt := l.amt - amt } s.locks, lastLock := s.lastLock + 1 }

/-! ## concentrated liquidity -/

def poolHasPosition (ps : List (Nat × Position)) (pool : Nat) : Bool :=
  ps.any fun p => p.2.pool = pool

def clWithdraw (s : State) (sender : String) (id : Nat) (k : WKind) : Option State :=
  if sender ∉ s.valid then none else
  match aget id s.positions with
  | none => none
  | some p =>
    if sender ≠ p.owner then none else                    -- owner.String() != position.Address
    if k = WKind.neg then none else
    if p.locked then none else
    if k = WKind.excess then none else
    if k = WKind.full then some { s with positions := aerase id s.positions } else some s

def clAdd (s : State) (sender : String) (id : Nat) (a0 a1 : Int) : Option State :=
  if sender ∉ s.valid then none else
  match aget id s.positions with
  | none => none
  | some p =>
    if sender ≠ p.owner then none else                    -- owner.String() != position.Address
    if a0 < 0 ∨ a1 < 0 then none else
    if a0 = 0 ∧ a1 = 0 then none else
    if p.locked then none else
    if !poolHasPosition (aerase id s.positions) p.pool then none else   -- AddToLastPositionInPoolError
    some { s with positions := aset s.nextPos { p with locked := false } (aerase id s.positions),
                  nextPos := s.nextPos + 1 }

/-- collectSpreadRewards / collectIncentives per position id, in order. -/
def clCollectAll (s : State) (sender : String) : List Nat → Option State
  | [] => some s
  | id :: ids =>
    match aget id s.positions with
    | none => none
    | some p =>
      if sender ≠ p.owner then none else                  -- sender.String() != position.Address
      clCollectAll s sender ids

def clCollect (s : State) (sender : String) (ids : List Nat) : Option State :=
  if sender ∉ s.valid then none else clCollectAll s sender ids

def clTransferOne (ps : List (Nat × Position)) (isGov : Bool) (sender newOwner : String) (id : Nat) :
    Option (List (Nat × Position)) :=
  match aget id ps with
  | none => none
  | some p =>
    if !isGov ∧ p.owner ≠ sender then none else           -- !isGovModuleSender && position.Address != sender.String()
    if p.locked then none else
    if !poolHasPosition (aerase id ps) p.pool then none else   -- LastPositionTransferError
    some (aset id { p with owner := newOwner, locked := false } (aerase id ps))

def clTransferAll (ps : List (Nat × Position)) (isGov : Bool) (sender newOwner : String) :
    List Nat → Option (List (Nat × Position))
  | [] => some ps
  | id :: ids =>
    match clTransferOne ps isGov sender newOwner id with
    | none => none
    | some ps' => clTransferAll ps' isGov sender newOwner ids

def clTransfer (s : State) (sender : String) (ids : List Nat) (newOwner : String) : Option State :=
  if sender ∉ s.valid then none else
  if newOwner ∉ s.valid then none else
  if ¬ ids.Nodup then none else                           -- DuplicatePositionIdsError
  match clTransferAll s.positions (decide (sender = s.gov)) sender newOwner ids with
  | none => none
  | some ps => some { s with positions := ps }

/-! ## superfluid (guards only; the staking side is not modelled) -/

def sfDelegate (s : State) (sender : String) (id : Nat) (val : String) : Option State :=
  match aget id s.locks with
  | none => none
  | some l =>
    if l.owner ≠ sender then none else                    -- validateLockForSF: lock.Owner != sender
    if !l.sfAsset then none else
    if l.unlocking then none else
    if l.dur < s.unbonding then none else
    if l.sf ≠ SF.none then none else                      -- alreadySuperfluidStaking
    if val ∉ s.validators then none else
    some { s with locks := aset id { l with sf := SF.bonded } s.locks }

def sfUndelegate (s : State) (sender : String) (id : Nat) : Option State :=
  match aget id s.locks with
  | none => none
  | some l =>
    if l.owner ≠ sender then none else
    if l.sf ≠ SF.bonded then none else                    -- ErrNotSuperfluidUsedLockup
    some { s with locks := aset id { l with sf := SF.undelegating } s.locks }

def sfUnbond (s : State) (sender : String) (id : Nat) : Option State :=
  match aget id s.locks with
  | none => none
  | some l =>
    if l.owner ≠ sender then none else
    if l.sf ≠ SF.undelegating then none else              -- no synthetic lock / still bonded
    if l.unlocking then none else
    some { s with locks := aset id { l with unlocking := true } s.locks }

def sfUndelegateUnbond (s : State) (sender : String) (id : Nat) (amt : Int) : Option State :=
  match aget id s.locks with
  | none => none
  | some l =>
    if amt ≤ 0 then none else
    if l.amt < amt then none else
    if l.sf ≠ SF.bonded then none else                    -- ErrNotSuperfluidUsedLockup
    if l.owner ≠ sender then none else                    -- SuperfluidUndelegate → validateLockForSF
    if l.unlocking then none else
    if amt = l.amt then
      some { s with locks := aset id { l with sf := SF.undelegating, unlocking := true } s.locks }
    else                                                  -- split; remainder re-delegated
      some { s with locks := aset (s.lastLock + 1) { l with amt := amt, unlocking := true, sf := SF.undelegating }
                               (aset id { l with amt := l.amt - amt } s.locks),
                    lastLock := s.lastLock + 1 }

/-! ## messages added for the full inventory (guards + record effect; pool / staking math is an input or
not modelled — see the rule text of C20 in tools/props.py) -/

/-- lockup `MsgBeginUnlockingAll`: `BeginUnlockAllNotUnlockings(owner)` walks the NOT-unlocking locks of
the sender (`AccountLockIterator(ctx, false, account)`) and calls `BeginUnlock(lock.ID, nil)` on each; one
lock with a synthetic lockup fails the whole message.  No lock id can be named: the message reaches the
sender's own locks only (`lkBeginAll_foreign_untouched`). -/
def beginAllOne (sender : String) (l : Lock) : Lock :=
  if l.owner = sender ∧ l.unlocking = false then { l with unlocking := true } else l

def lkBeginAll (s : State) (sender : String) : Option State :=
  if sender ∉ s.valid then none else
  if s.locks.any (fun p => decide (p.2.owner = sender) && !p.2.unlocking && decide (p.2.sf ≠ SF.none)) then none else
  some { s with locks := s.locks.map fun p => (p.1, beginAllOne sender p.2) }

/-- staking delegation with an explicit validator, or (empty `valAddr`) through the sender's validator-set
preference / existing delegations; the fall-back to the lock's original superfluid validator is dead
(`undelegateCommon` has deleted the intermediary-account connection before it is looked up). -/
def canStake (s : State) (sender val : String) : Bool :=
  if val = "" then decide (sender ∈ s.delegators) else decide (val ∈ s.validators)

/-- superfluid `MsgUnbondConvertAndStake` for a lock id > 0 (`UnbondConvertAndStake`, `convertLockToStake`):
exit the balancer pool with the lock's shares, swap to the bond denom, stake.  The exit / swap amounts
are not modelled; with `MinAmtToStake = 0` (what the engine sends) they cannot fail the message. -/
def sfConvert (s : State) (sender : String) (id : Nat) (val : String) : Option State :=
  if sender ∉ s.valid then none else
  match aget id s.locks with
  | none => none
  | some l =>
    if l.sf = SF.bonded ∧ l.owner ≠ sender then none else   -- undelegateCommon → validateLockForSF: lock.Owner != sender
    if l.owner ≠ sender then none else                      -- convertLockToStake: lock.Owner != sender.String()
    if !l.dk.isGamm then none else                          -- SharesToMigrateDenomPrefixError
    if !canStake s sender val then none else
    some { s with locks := aerase id s.locks,
                  delegators := if sender ∈ s.delegators then s.delegators else sender :: s.delegators }

/-- superfluid `MsgUnlockAndMigrateSharesToFullRangeConcentratedPosition`: the handler is a bare
`return nil, errors.New("… no longer supported")` — nobody, the owner included, gets through. -/
def sfMigrate (_s : State) (_sender : String) (_id : Nat) : Option State := none

/-- superfluid `MsgAddToConcentratedLiquiditySuperfluidPosition`, from the lookup of the underlying lock on.
`newAmt` (the liquidity of the re-created position = the amount of its new lock) is an input: the CL
math is not modelled. -/
def sfAddToCLLock (s : State) (sender : String) (id : Nat) (p : Position) (l : Lock) (newAmt : Int) : Option State :=
  if l.owner ≠ p.owner then none else                   -- lock.Owner != position.Address
  if l.owner ≠ sender then none else                    -- lock.Owner != sender.String()
  if l.dur ≠ s.unbonding ∨ l.unlocking then none else   -- LockImproperStateError
  if l.sf ≠ SF.bonded then none else                    -- undelegateCommon: ErrNotSuperfluidUsedLockup
  if !poolHasPosition (aerase id s.positions) p.pool then none else   -- AddToLastPositionInPoolError
  if newAmt ≤ 0 then none else
  some { s with positions := aset s.nextPos { owner := sender, pool := p.pool, locked := true, lockId := s.lastLock + 1 }
                               (aerase id s.positions),
                nextPos := s.nextPos + 1,
                locks := aset (s.lastLock + 1) { l with owner := sender, recv := "", amt := newAmt, unlocking := false, sf := SF.bonded }
                           (aerase p.lockId s.locks),
                lastLock := s.lastLock + 1 }

def sfAddToCL (s : State) (sender : String) (id : Nat) (a0 a1 : Int) (newAmt : Int) : Option State :=
  if sender ∉ s.valid then none else
  match aget id s.positions with
  | none => none
  | some p =>
    if a0 < 0 ∨ a1 < 0 then none else
    if !p.locked ∨ p.lockId = 0 then none else            -- PositionNotSuperfluidStakedError
    match aget p.lockId s.locks with
    | none => none
    | some l => sfAddToCLLock s sender id p l newAmt

/-- `time.Hour*24*7*2` in seconds (the guard expression is pinned in `guards_pinned`). -/
def twoWeeks : Int := 1209600

/-- valset-pref `MsgDelegateBondedTokens` (`ForceUnlockBondedOsmo`, `validateLockForForceUnlock`): break a
bonded uosmo lock of at most two weeks and stake it along the sender's validator-set preference. -/
def vpDelegateBonded (s : State) (sender : String) (id : Nat) : Option State :=
  if sender ∉ s.delegators then none else                   -- NoValidatorSetOrExistingDelegationsError
  match aget id s.locks with
  | none => none
  | some l =>
    if l.owner ≠ sender then none else                      -- lock.GetOwner() != delegatorAddr
    if l.dk ≠ DKind.osmo ∨ l.amt ≤ 0 then none else
    if l.unlocking ∨ l.dur > twoWeeks then none else
    if l.sf ≠ SF.none then none else
    some { s with locks := aerase id s.locks }

/-- gamm `MsgStableSwapAdjustScalingFactors` (`setStableSwapScalingFactors`, `Pool.SetScalingFactors`): only the
pool's scaling-factor controller; the comparison is a plain string comparison, so a pool created without a
controller ("") has none forever.  The factors themselves are not modelled (`factorsOk`: they pass validation). -/
def gmScaling (s : State) (sender : String) (pool : Nat) (factorsOk : Bool) : Option State :=
  match aget pool s.controllers with
  | none => none                                            -- no such pool / not a stableswap pool
  | some c =>
    if sender ≠ c then none else                            -- sender != p.ScalingFactorController
    if !factorsOk then none else
    some s

/-- does `a` own a lock (unlocking or not) of the pool's share denom? -/
def ownsGammLock (s : State) (a : String) (pool : Nat) : Bool :=
  s.locks.any fun p => decide (p.2.owner = a) && decide (p.2.dk = DKind.gamm pool)

/-- superfluid `MsgUnPoolWhitelistedPool` names no lock: it walks
`GetAccountLockedLongerDurationDenom(sender, gamm/pool/<id>, 1ms)`.  Modelled for senders WITHOUT such a
lock only (the driver refuses the op otherwise: unpooling the sender's own locks needs the pool math): the
message then succeeds and does nothing. -/
def sfUnpoolNoLock (s : State) (sender : String) (pool : Nat) : Option State :=
  if sender ∉ s.valid then none else
  if pool ∉ s.unpoolAllowed then none else                 -- ErrPoolNotWhitelisted
  some s

/-! ## dispatcher -/

def apply (s : State) : Msg → Option State
  | .tfCreate a b => tfCreate s a b
  | .tfMint a d x t => tfMint s a d x t
  | .tfBurn a d x f => tfBurn s a d x f
  | .tfForce a d x f t => tfForce s a d x f t
  | .tfChangeAdmin a d n => tfChangeAdmin s a d n
  | .tfSetMeta a b v t => tfSetMeta s a b v t
  | .tfSetHook a d c => tfSetHook s a d c
  | .lkBegin a i x => lkBegin s a i x
  | .lkExtend a i d => lkExtend s a i d
  | .lkSetRecv a i r => lkSetRecv s a i r
  | .lkForce a i x => lkForce s a i x
  | .clWithdraw a i k => clWithdraw s a i k
  | .clAdd a i x y => clAdd s a i x y
  | .clFees a ids => clCollect s a ids
  | .clIncentives a ids => clCollect s a ids
  | .clTransfer a ids n => clTransfer s a ids n
  | .sfDelegate a i v => sfDelegate s a i v
  | .sfUndelegate a i => sfUndelegate s a i
  | .sfUnbond a i => sfUnbond s a i
  | .sfUndelegateUnbond a i x => sfUndelegateUnbond s a i x
  | .lkBeginAll a => lkBeginAll s a
  | .sfConvert a i v => sfConvert s a i v
  | .sfMigrate a i => sfMigrate s a i
  | .sfAddToCL a i x y n => sfAddToCL s a i x y n
  | .vpDelegateBonded a i => vpDelegateBonded s a i
  | .gmScaling a p k => gmScaling s a p k
  | .sfUnpoolNoLock a p => sfUnpoolNoLock s a p

/-- one message; the INPUT state is returned on any rejection. -/
def step (s : State) (m : Msg) : State × Result :=
  match apply s m with
  | some s' => (s', .ok)
  | none => (s, .err)

def Msg.sender : Msg → String
  | .tfCreate a _ | .tfMint a _ _ _ | .tfBurn a _ _ _ | .tfForce a _ _ _ _ | .tfChangeAdmin a _ _
  | .tfSetMeta a _ _ _ | .tfSetHook a _ _ | .lkBegin a _ _ | .lkExtend a _ _ | .lkSetRecv a _ _
  | .lkForce a _ _ | .clWithdraw a _ _ | .clAdd a _ _ _ | .clFees a _ | .clIncentives a _
  | .clTransfer a _ _ | .sfDelegate a _ _ | .sfUndelegate a _ | .sfUnbond a _ | .sfUndelegateUnbond a _ _
  | .lkBeginAll a | .sfConvert a _ _ | .sfMigrate a _ | .sfAddToCL a _ _ _ _ | .vpDelegateBonded a _
  | .gmScaling a _ _ | .sfUnpoolNoLock a _ => a

def ownerOfLock (s : State) (id : Nat) : Option String := (aget id s.locks).map (·.owner)
def ownerOfPosition (s : State) (id : Nat) : Option String := (aget id s.positions).map (·.owner)

end OsmoVerif.Auth
