/- line-protocol dispatch for the `sumtree` engine: `sumtree <op> <args…>`.
Keys: lowercase hex; `-` = empty non-nil slice; `*` = nil slice. -/
import OsmoVerif.Model.SumTree
namespace OsmoVerif.SumTree

def hexVal (c : Char) : Option Nat :=
  if '0' ≤ c ∧ c ≤ '9' then some (c.toNat - '0'.toNat)
  else if 'a' ≤ c ∧ c ≤ 'f' then some (c.toNat - 'a'.toNat + 10)
  else none

def parseHex : List Char → Option Key
  | [] => some []
  | a :: b :: rest =>
    match hexVal a, hexVal b, parseHex rest with
    | some x, some y, some r => some ((x * 16 + y) :: r)
    | _, _, _ => none
  | _ => none

def parseKey (s : String) : Option Ptr :=
  if s = "*" then some Ptr.nil
  else if s = "-" then some (Ptr.of [])
  else if s = "" then none
  else (parseHex s.toList).map Ptr.of

def hexDigit (n : Nat) : Char :=
  if n < 10 then Char.ofNat ('0'.toNat + n) else Char.ofNat ('a'.toNat + (n - 10))

def showKey (k : Key) : String :=
  match k with
  | [] => "-"
  | _ => String.ofList (k.flatMap fun b => [hexDigit (b / 16 % 16), hexDigit (b % 16)])

def showKV (c : Key × Int) : String := showKey c.1 ++ "=" ++ toString c.2

def showNode (n : Key × List Child) : String :=
  showKey n.1 ++ "[" ++ ",".intercalate (n.2.map showKV) ++ "]"

/-- levels ℓ ≥ 1, numbered from `i`, empty ones skipped -/
def showLevels : Nat → List Level → List String
  | _, [] => []
  | i, lv :: rest =>
    if lv.isEmpty then showLevels (i + 1) rest
    else ("L" ++ toString i ++ ":" ++ ";".intercalate (lv.map showNode)) :: showLevels (i + 1) rest

def dump (s : Store) : String :=
  let l0 := if s.leaves.isEmpty then [] else ["L0:" ++ ",".intercalate (s.leaves.map showKV)]
  match l0 ++ showLevels 1 s.levels with
  | [] => "ok"
  | parts => "ok " ++ "|".intercalate parts

def showOptInt : Option Int → String
  | some v => s!"ok {v}"
  | none => "panic"

def mutRes (s : Store) (r : Option Store) : Store × String :=
  match r with
  | some s' => (s', "ok")
  | none => (s, "panic")

def initSumTree : Store := ⟨0, [], []⟩

def stepSumTree (s : Store) (op : String) (args : List String) : Store × String :=
  match op, args with
  | "reset", [m] =>
    match m.toNat? with
    | some m => mutRes s (new m)
    | none => (s, "bad-op")
  | "set", [k, v] =>
    match parseKey k, v.toInt? with
    | some k, some v => mutRes s (set s k v)
    | _, _ => (s, "bad-op")
  | "incr", [k, v] =>
    match parseKey k, v.toInt? with
    | some k, some v => mutRes s (increase s k v)
    | _, _ => (s, "bad-op")
  | "decr", [k, v] =>
    match parseKey k, v.toInt? with
    | some k, some v => mutRes s (decrease s k v)
    | _, _ => (s, "bad-op")
  | "remove", [k] =>
    match parseKey k with
    | some k => mutRes s (remove s k)
    | none => (s, "bad-op")
  | "get", [k] =>
    match parseKey k with
    | some k => (s, s!"ok {get s k.key}")
    | none => (s, "bad-op")
  | "split", [k] =>
    match parseKey k with
    | some k =>
      match splitAcc s k.key with
      | some (l, e, r) => (s, s!"ok {l} {e} {r}")
      | none => (s, "panic")
    | none => (s, "bad-op")
  | "subset", [lo, hi] =>
    match parseKey lo, parseKey hi with
    | some lo, some hi => (s, showOptInt (subset s lo hi))
    | _, _ => (s, "bad-op")
  | "prefix", [k] =>
    match parseKey k with
    | some k => (s, showOptInt (prefixSum s k))
    | none => (s, "bad-op")
  | "total", [] => (s, showOptInt (total s))
  | "iter", [] => (s, " ".intercalate ("ok" :: (iterate s).map showKV))
  | "iter", [b, e] =>
    match parseKey b, parseKey e with
    | some b, some e => (s, " ".intercalate ("ok" :: (iterRange s b e).map showKV))
    | _, _ => (s, "bad-op")
  | "riter", [b, e] =>
    match parseKey b, parseKey e with
    | some b, some e => (s, " ".intercalate ("ok" :: (iterRangeRev s b e).map showKV))
    | _, _ => (s, "bad-op")
  | "dump", [] => (s, dump s)
  | _, _ => (s, "bad-op")

end OsmoVerif.SumTree
