/-
The part of the x/gamm store that `Model/GammKeeper.lean` does not carry, and the module's genesis export / import
(x/gamm/keeper/genesis.go).  Core only.

`Gamm.State` (C02) has the pool records, the bank and the x/poolmanager parameters / next pool id.  x/gamm additionally keeps
  * the TOTAL LIQUIDITY per denom (`KeyTotalLiquidity ++ denom`, total_liquidity.go): a derived store the running chain maintains
    incrementally — `RecordTotalLiquidityIncrease/Decrease` next to every transfer into / out of a pool account
    (pool_service.go:124 pool creation, share.go:30 join, share.go:52 exit, swap.go:218-219 every swap) — and which `InitGenesis`
    RECOMPUTES from the pool records (genesis.go:20-37);
  * its own, deprecated next-pool-number (`KeyNextGlobalPoolId`: written by `InitGenesis` only, pool ids come from x/poolmanager);
  * the gamm params (pool creation fee) and the balancer → concentrated migration records.
The message layer is `Gamm.step` unchanged: `stepT` runs it on the core and then applies the `Record…` calls of that message
(`flows`: re-walking a route hop by hop with the same functions the core ran, so the recorded amounts are the transferred ones).
-/
import OsmoVerif.Model.GammKeeper

namespace OsmoVerif.Gamm
open OsmoVerif.Ledger

/-- one `RecordTotalLiquidityIncrease` (`true`) / `…Decrease` (`false`) call -/
abbrev Flow := Bool × Coins

/-- `RecordTotalLiquidityIncrease` (total_liquidity.go:68-74): per coin `GetDenomLiquidity` (0 when absent), add, set. -/
def recInc (tl : Coins) : Coins → Coins
  | [] => tl
  | (d, a) :: cs => recInc (aset tl d (aget tl d + a)) cs

/-- `RecordTotalLiquidityDecrease` (total_liquidity.go:76-82). -/
def recDec (tl : Coins) : Coins → Coins
  | [] => tl
  | (d, a) :: cs => recDec (aset tl d (aget tl d - a)) cs

def applyFlows (tl : Coins) : List Flow → Coins
  | [] => tl
  | (true, cs) :: fs => applyFlows (recInc tl cs) fs
  | (false, cs) :: fs => applyFlows (recDec tl cs) fs

/-- `updatePoolForSwap` (swap.go:218-219) of one exact-in hop: the pool received `after` (the amount after the taker fee) and
paid `out`. -/
def hopInFlows (s : State) (u : Nat) (din : Denom) (amt : Int) (h : HopIn) : List Flow :=
  match chargeTakerFee s u din amt h.dout true, h.math with
  | some (_, after, _), some out => [(true, [(din, after)]), (false, [(h.dout, out)])]
  | _, _ => []

/-- the hops of `RouteExactAmountIn`, in order, each on the state the previous hops left (`routeInLoop`). -/
def routeInFlows (s : State) (u : Nat) (din : Denom) (amt : Int) (minOut : Int) : List HopIn → List Flow
  | [] => []
  | [h] => hopInFlows s u din amt h
  | h :: h2 :: hs =>
    match hopIn s u din amt h 1 with
    | some (s1, out) => hopInFlows s u din amt h ++ routeInFlows s1 u h.dout out minOut (h2 :: hs)
    | none => []

/-- one exact-out hop: gamm `SwapExactAmountOut` took `a` (= the pool-math answer) and paid the requested `tout`. -/
def hopOutFlows (h : HopOut) (tout : Denom × Int) : List Flow :=
  match h.math with
  | some a => [(true, [(h.din, a)]), (false, [(tout.1, tout.2)])]
  | none => []

/-- what hop `i` of `RouteExactAmountOut` must deliver: the next hop's token in and expected amount, the final coin on the last hop. -/
def toutOf (final : Denom × Int) : List HopOut → List Int → Denom × Int
  | h2 :: _, x :: _ => (h2.din, x)
  | _, _ => final

/-- the hops of `RouteExactAmountOut` (`routeOutLoop`). -/
def routeOutFlows (s : State) (u : Nat) (final : Denom × Int) : List HopOut → List Int → List Flow
  | [], _ => []
  | _ :: _, [] => []
  | h :: hs, e :: es =>
    match hopOut s u h e (toutOf final hs es) with
    | some (s1, _) => hopOutFlows h (toutOf final hs es) ++ routeOutFlows s1 u final hs es
    | none => []

/-- the swaps of `ExitSwapShareAmountIn` (`exitSwapLoop`): gamm `SwapExactAmountIn` directly, no taker fee. -/
def exitSwapFlows (s : State) (u id : Nat) (dout : Denom) : Coins → List (Option Int) → List Flow
  | [], _ => []
  | (d, a) :: cs, ms =>
    if d = dout then exitSwapFlows s u id dout cs ms else
    match ms with
    | [] => []
    | m :: ms' =>
      match gammSwapIn s u id d a dout 0 m with
      | some (s1, out) => [(true, [(d, a)]), (false, [(dout, out)])] ++ exitSwapFlows s1 u id dout cs ms'
      | none => []

/-- the `RecordTotalLiquidity…` calls of one (successful) message, in execution order. -/
def flows (s : State) : Msg → List Flow
  -- InitializePool: `RecordTotalLiquidityIncrease(cfmmPool.GetTotalPoolLiquidity(ctx))` (pool_service.go:124)
  | .createPool _ _ liq => [(true, liq)]
  -- applyJoinPoolStateChange(joinCoins = neededLpLiquidity) (share.go:30)
  | .joinPool _ id sh _ _ =>
    match (getPool s.pools id).bind fun p => getMaximalNoSwapLPAmount p sh with
    | some needed => [(true, needed)]
    | none => []
  | .joinSwapExternAmountIn _ _ din amt _ _ => [(true, [(din, amt)])]
  | .joinSwapShareAmountOut _ _ din _ _ m =>
    match m with
    | some tin => [(true, if tin = 0 then [] else [(din, tin)])]
    | none => []
  -- applyExitPoolStateChange(exitCoins) (share.go:52)
  | .exitPool _ _ _ _ m =>
    match m with
    | some cs => [(false, cs)]
    | none => []
  | .exitSwapShareAmountIn u id dout sh _ m ms =>
    match exitPool s u id sh [] m with
    | some (s1, cs) => (false, cs) :: exitSwapFlows s1 u id dout cs ms
    | none => []
  | .exitSwapExternAmountOut _ _ dout amtOut _ => [(false, [(dout, amtOut)])]
  | .swapExactAmountIn u din amt mn hops => routeInFlows s u din amt mn hops
  | .swapExactAmountOut u mx dout amtOut hops =>
    match expectedIns s.params (dout, amtOut) hops with
    | some (_ :: es) => routeOutFlows s u (dout, amtOut) hops (mx :: es)
    | _ => []
  -- a direct bank send is not a gamm message
  | .bankSend .. => []

/-- the x/gamm store: the C02 state plus what it leaves out -/
structure GState where
  core : State := {}
  totalLiq : Coins := []                    -- denom ↦ amount, 0 when absent (`GetDenomLiquidity`)
  nextPoolNumber : Nat := 1                 -- gamm `KeyNextGlobalPoolId`
  poolCreationFee : Coins := []             -- gamm `Params`
  migration : List (Nat × Nat) := []        -- `MigrationRecords`: balancer pool id ↦ concentrated pool id

/-- `GetDenomLiquidity` / the per-denom amount of the `TotalLiquidity` query -/
def GState.liquidity (g : GState) (d : Denom) : Int := aget g.totalLiq d

/-- one message: the core message, then its `Record…` calls (a failed message changes nothing). -/
def stepT (g : GState) (m : Msg) : Option GState :=
  (step g.core m).map fun c' => { g with core := c', totalLiq := applyFlows g.totalLiq (flows g.core m) }

inductive GOp where
  | op (o : Op)                                   -- a message / harness mint / poolmanager parameter change
  | setMigration (recs : List (Nat × Nat))        -- governance: `SetMigrationRecords`
  | setGammParams (fee : Coins)                   -- governance: gamm `SetParams`

def applyOpT (g : GState) : GOp → GState
  | .op (.msg m) =>
    match stepT g m with
    | some g' => g'
    | none => g
  | .op o => { g with core := applyOp g.core o }
  | .setMigration recs => { g with migration := recs }
  | .setGammParams fee => { g with poolCreationFee := fee }

def runT (g : GState) : List GOp → GState
  | [] => g
  | o :: os => runT (applyOpT g o) os

/-- did the message succeed? (the observable outcome; the amounts a message reports are functions of the core state) -/
def outcomeT (g : GState) : GOp → Bool
  | .op (.msg m) => (step g.core m).isSome
  | _ => true

def outcomesT (g : GState) : List GOp → List Bool
  | [] => []
  | o :: os => outcomeT g o :: outcomesT (applyOpT g o) os

/-! ## genesis -/

/-- `types.GenesisState` (x/gamm/types/genesis.pb.go): pools, next pool number, params, migration records (a nil-able pointer). -/
structure GammGenesis where
  pools : List (Nat × Pool)
  nextPoolNumber : Nat
  poolCreationFee : Coins
  migration : Option (List (Nat × Nat))

/-- `ExportGenesis` (genesis.go:47-69): `GetAllMigrationInfo`, `GetPoolsAndPoke` (every pool record, store order),
`GetNextPoolId` (gamm's own), `GetParams`.  The total liquidity is NOT exported. -/
def gammExportGenesis (g : GState) : GammGenesis :=
  { pools := g.core.pools, nextPoolNumber := g.nextPoolNumber, poolCreationFee := g.poolCreationFee,
    migration := some g.migration }

/-- `sdk.Coins.Add` of one coin: amounts of equal denoms are summed, a zero result is dropped. -/
def coinsAdd1 (acc : Coins) (c : Denom × Int) : Coins :=
  let v := aget acc c.1 + c.2
  if v = 0 then aerase acc c.1 else aset acc c.1 v

/-- the loop body of `InitGenesis` (genesis.go:21-35): `setPool`, then `liquidity = liquidity.Add(asset)` for every asset of
`pool.GetTotalPoolLiquidity`. -/
def initPool (acc : List (Nat × Pool) × Coins) (e : Nat × Pool) : List (Nat × Pool) × Coins :=
  (setPool acc.1 e.1 e.2, e.2.reserves.foldl coinsAdd1 acc.2)

/-- `InitGenesis` (genesis.go:13-44): `setParams`, `setNextPoolId`, the pool loop, `setTotalLiquidity(liquidity)` (one
`setDenomLiquidity` per coin of the sum, on the empty store), `SetMigrationRecords` (empty records when the pointer is nil).
`fresh` = the chain state with the gamm store wiped; bank, poolmanager parameters and next pool id (and the C02 ghost fields)
are not gamm's. -/
def gammInitGenesis (fresh : GState) (gen : GammGenesis) : GState :=
  let r := gen.pools.foldl initPool ([], [])
  { core := { fresh.core with pools := r.1 },
    totalLiq := r.2,
    nextPoolNumber := gen.nextPoolNumber,
    poolCreationFee := gen.poolCreationFee,
    migration := match gen.migration with
      | some m => m
      | none => [] }

def gammExportImport (g : GState) : GState := gammInitGenesis g (gammExportGenesis g)

/-- the liquidity of denom `d` a pool record reports (`GetTotalPoolLiquidity`), summed over the coin list -/
def Pool.liq (p : Pool) (d : Denom) : Int := sumOf p.reserves d

/-- Σ over all pool records -/
def sumLiq : List (Nat × Pool) → Denom → Int
  | [], _ => 0
  | (_, p) :: ps, d => p.liq d + sumLiq ps d

end OsmoVerif.Gamm
