/-
Primitives the GENERATED definitions (`Gen/*Fn.lean`, written by `tools/extract/gen_expr.go`) use in
addition to `Model/Num.lean`: the sdk `Int` wrappers (256-bit overflow check of `Add`/`Sub`/`Mul`,
`Quo` panics on zero), `Int.ToLegacyDec`, `BigDecFromDec`, `sdk.NewCoin`'s negative-amount panic.
Hand-written, core-only; every definition is a one-liner over `Num.chkInt` / `P18` / `Pdiff`, so the
hand-written models (which spell the same thing as `chkInt (a - b)`, `a * P18`, …) are definitionally
equal to what the translator emits.
-/
import OsmoVerif.Model.Num

namespace OsmoVerif.Num

-- cosmossdk.io/math `Int` (|x| < 2^256, `SafeAdd`/`SafeSub`/`SafeMul` + panic)
namespace SInt
def add (a b : Int) : Option Int := chkInt (a + b)
def sub (a b : Int) : Option Int := chkInt (a - b)
def mul (a b : Int) : Option Int := chkInt (a * b)
/-- `Int.Quo`: "Division by zero" panic; `big.Int.Quo` truncates; cannot overflow. -/
def quo (a b : Int) : Option Int := if b = 0 then none else some (a.tdiv b)
/-- `Int.ToLegacyDec()` = `LegacyNewDecFromInt`: ×10^18, no range check in the SDK. -/
def toDec (a : Int) : Int := a * P18
end SInt

/-- Go's `%` on native integers: truncated remainder; a zero divisor is a run-time panic. -/
def I64.rem (a b : Int) : Option Int := if b = 0 then none else some (a.tmod b)

/-- `osmomath.BigDecFromDec(Mut)`: ×10^18, exact, no check. -/
def BigDec.ofDec (d : Int) : Int := d * Pdiff

/-- `sdk.NewCoin(denom, amount)`: panics on a negative amount (denom validity is not modelled: every
denom reaching the tied functions comes from an existing coin or a validated parameter). -/
def newCoin (amt : Int) : Option Int := if amt < 0 then none else some amt

end OsmoVerif.Num
