/-
Genesis export / import of x/concentrated-liquidity (x/concentrated-liquidity/genesis.go) for the LAYERED state of one pool:
`CLInc.Full` = pool (`Model/CLPool.lean`) + spread-reward accumulator (`Model/CLFees.lean`) + uptime accumulators, tick trackers,
incentive records, join times (`Model/CLInc.lean`); plus the per-pool FULL-RANGE LIQUIDITY record, which none of those models carries
(`FullG`).  `Model/CLPoolGenesis.lean` (pool component only) is subsumed.  Core only.

What the document carries (types/genesis/genesis.pb.go): per pool the struct (incl. `LastLiquidityUpdate`), every initialised tick with
its `Info` (gross, net, spread-reward growth outside, uptime trackers — ONE store value per tick; the model keeps the three parts in
three lists keyed by tick), the spread-reward accumulator and the six uptime accumulators (value, total shares), the incentive records;
per position the struct (incl. `JoinTime`), the lock id (not modelled), its record in the spread-reward accumulator and in each of the
six uptime accumulators; `NextPositionId`, `NextIncentiveRecordId`, params / migration thresholds (not modelled: `factor`, `authorized`
stay).  Bank balances (pool, spread-reward and incentive addresses) are x/bank's.

What it does NOT carry:
 * accumulator position records of positions that no longer exist — the running chain keeps the six zero-share UPTIME records of a
   fully withdrawn position forever (`WithdrawPosition` deletes the position and its spread-reward record, lp.go:302-310, but nothing
   deletes the uptime records), `ExportGenesis` walks the live positions only (genesis.go:181-230);
 * the full-range liquidity record (`KeyFullRangeLiquidityPrefix`): `InitGenesis` rebuilds it through `SetPosition`, which ADDS the
   liquidity of every full-range position (position.go:334-340) — the true sum, while the running chain's value only ever grows (F41);
 * the module-wide total liquidity (recomputed from the pool balances, F35; not in this one-pool model).
-/
import OsmoVerif.Model.CLInc
import OsmoVerif.Model.CLPoolGenesis

namespace OsmoVerif.CLInc
open OsmoVerif.Num OsmoVerif.CL OsmoVerif.CLPool OsmoVerif.CLFees

/-- `tick.Info` with its index, as exported (`GetAllInitializedTicksForPool`) -/
structure GTick where
  tick : Int
  gross : Int
  net : Int
  spreadOut : V2            -- SpreadRewardGrowthOppositeDirectionOfLastTraversal
  uptime : List DC          -- UptimeTrackers
  deriving Repr, DecidableEq

/-- an `accum.Record` (position record of an accumulator) -/
structure GRec (β : Type) where
  shares : Int
  snap : β
  unclaimed : β
  deriving Repr, DecidableEq

/-- `genesis.PositionData` -/
structure GPosition where
  pos : Position
  joinTime : Int
  spreadRec : GRec V2
  uptimeRecs : List (GRec DC)
  deriving Repr, DecidableEq

/-- `genesis.GenesisState` restricted to one pool -/
structure FullGenesis where
  spacing : Int
  spf : Int
  scale : Int
  sqrtPrice : Int
  curTick : Int
  liquidity : Int
  lastLiquidityUpdate : Int
  ticks : List GTick
  spreadAcc : V2 × Int                   -- AccumValue, TotalShares
  uptimeAccs : List (DC × Int)
  incentiveRecords : List IncRec
  positions : List GPosition
  nextPositionId : Nat
  nextIncentiveRecordId : Nat
  deriving Repr, DecidableEq

/-- one exported tick: the three parts of its `Info`; `none` = the model state has no growth-outside / tracker entry for a stored tick
(impossible in the store, where they are one value) -/
def exportTick (s : Full) (t : TickInfo) : Option GTick :=
  (getOut s.fees.acc.outs t.tick).bind fun o => (getTr s.inc.trackers t.tick).map fun tr => ⟨t.tick, t.gross, t.net, o, tr⟩

/-- one exported position (genesis.go:181-230): `GetPosition`, then `accum.GetPosition` in the spread-reward accumulator and in each of the
six uptime accumulators — an absent record is an error, and `ExportGenesis` PANICS on it (`none`). -/
def exportPosition (s : Full) (q : Position) : Option GPosition :=
  ((s.inc.join.find? (·.1 = q.id)).map (·.2)).bind fun jt =>
  (getRec s.fees.acc.recs q.id).bind fun r =>
  (s.inc.accs.mapM fun a => (getURec a.recs q.id).map fun u => (⟨u.shares, u.snap, u.unclaimed⟩ : GRec DC)).map fun us =>
    ⟨q, jt, ⟨r.shares, r.snap, r.unclaimed⟩, us⟩

/-- `ExportGenesis` (genesis.go:121-258). -/
def exportFull (s : Full) : Option FullGenesis :=
  (s.fees.pool.ticks.mapM (exportTick s)).bind fun ticks =>
  ((sortPosById s.fees.pool.positions).mapM (exportPosition s)).map fun ps =>
    { spacing := s.fees.pool.spacing, spf := s.fees.pool.spf, scale := s.fees.pool.scale, sqrtPrice := s.fees.pool.sqrtPrice,
      curTick := s.fees.pool.tick, liquidity := s.fees.pool.liquidity, lastLiquidityUpdate := s.inc.last,
      ticks := ticks, spreadAcc := (s.fees.acc.global, s.fees.acc.totalShares),
      uptimeAccs := s.inc.accs.map fun a => (a.value, a.total),
      incentiveRecords := s.inc.records,
      positions := ps, nextPositionId := s.fees.pool.nextId, nextIncentiveRecordId := s.inc.nextRec }

/-- a KV set on a list kept in ascending key order (insert at the key's place or overwrite) -/
def putK {α : Type} (key : α → Int) : List α → α → List α
  | [], x => [x]
  | y :: ys, x => if key x < key y then x :: y :: ys else if key x = key y then x :: ys else y :: putK key ys x

/-- `for uptimeIndex, uptimeRecord := range positionWrapper.UptimeAccumRecords { initOrUpdateAccumPosition(uptimeAccumulators[uptimeIndex], …) }`
(genesis.go:98-107): record `k` is KV-set under the position's key in accumulator `k`; more records than accumulators = index out of
range (`none`), fewer = the remaining accumulators are left alone. -/
def setUptimeRecs (id : Nat) : List UAcc → List (GRec DC) → Option (List UAcc)
  | accs, [] => some accs
  | [], _ :: _ => none
  | a :: as, u :: us =>
    (setUptimeRecs id as us).map fun as' =>
      { a with recs := putK (fun (r : URec) => (r.id : Int)) a.recs ⟨id, u.shares, u.snap, u.unclaimed⟩ } :: as'

/-- `InitGenesis` (genesis.go:18-119), the one-pool part, statement by statement:
 21-22 next position / incentive record id; 34 `setPool`; 40-42 `SetTickInfo` per tick (one KV set: all three parts); 52 spread-reward
 accumulator; 58-64 uptime accumulators (`MakeAccumulatorWithValueAndShare`: value and total shares, no records); 67
 `setMultipleIncentiveRecords`; 74-108 per position `SetPosition` (KV set under the id, join time inside), its spread-reward record and
 its uptime records.  `fresh` = the state with the CL store wiped: the bank balances, the ghost totals `out0/out1`, block time and
 params stay.  `none` = panic. -/
def initFull (fresh : Full) (g : FullGenesis) : Option Full :=
  (g.positions.foldlM (fun accs p => setUptimeRecs p.pos.id accs p.uptimeRecs)
      (g.uptimeAccs.map fun a => ({ value := a.1, total := a.2, recs := [] } : UAcc))).map fun uaccs =>
  { fees :=
      { fresh.fees with
        pool := { fresh.fees.pool with
                  spacing := g.spacing, spf := g.spf, scale := g.scale, sqrtPrice := g.sqrtPrice, tick := g.curTick,
                  liquidity := g.liquidity,
                  ticks := g.ticks.foldl (fun ts t => putTick ts ⟨t.tick, t.gross, t.net⟩) [],
                  positions := g.positions.foldl (fun ps p => putPos ps p.pos) [],
                  nextId := g.nextPositionId },
        acc := { global := g.spreadAcc.1, totalShares := g.spreadAcc.2,
                 outs := g.ticks.foldl (fun os t => putK (fun (e : Int × V2) => e.1) os (t.tick, t.spreadOut)) [],
                 recs := g.positions.foldl (fun rs p => putK (fun (r : Rec) => (r.id : Int)) rs
                           ⟨p.pos.id, p.spreadRec.shares, p.spreadRec.snap, p.spreadRec.unclaimed⟩) [] } },
    inc :=
      { fresh.inc with
        accs := uaccs,
        trackers := g.ticks.foldl (fun ts t => putK (fun (e : Int × List DC) => e.1) ts (t.tick, t.uptime)) [],
        records := g.incentiveRecords.foldl insertRec [],
        last := g.lastLiquidityUpdate,
        join := g.positions.foldl (fun js p => putK (fun (e : Nat × Int) => (e.1 : Int)) js (p.pos.id, p.joinTime)) [],
        nextRec := g.nextIncentiveRecordId } }

/-- the CL store of the pool emptied; bank balances (`bal0/bal1/fee0/fee1`, incentive address), the paid-out totals, the clock and the
parameters (`factor`, `authorized`) are not the pool store's -/
def freshFull (s : Full) : Full :=
  { fees := { pool := CLPool.freshOf s.fees.pool, out0 := s.fees.out0, out1 := s.fees.out1 },
    inc := { accs := [], now := s.inc.now, factor := s.inc.factor, authorized := s.inc.authorized, bal := s.inc.bal } }

def exportImportFull (s : Full) : Option Full := (exportFull s).bind (initFull (freshFull s))

/-! ## the full-range liquidity record (F41) -/

def isFullRange (lower upper : Int) : Bool := lower = Gen.CL.MinInitializedTick ∧ upper = Gen.CL.MaxTick

/-- the layered state plus `KeyFullRangeLiquidityPrefix(poolId)` -/
structure FullG where
  full : Full
  fullRange : Int := 0
  deriving Repr

/-- what `SetPosition` adds to the record when it stores a position with liquidity `liq` (position.go:334-340) -/
def frAdd (fr : Int) (lower upper liq : Int) : Int := if isFullRange lower upper then fr + liq else fr

inductive GOp where
  | create (owner : String) (lower upper a0 a1 : Int)
  | withdraw (owner : String) (id : Nat) (liq : Int)
  | add (owner : String) (id : Nat) (a0 a1 : Int)
  | transfer (sender : String) (id : Nat) (newOwner : String)
  | swap (outGivenIn zfo : Bool) (specified : Int)
  | collect (sender : String) (id : Nat)
  | incentive (id : Nat) (denom : String) (amount rate start : Int) (uptime : Nat)
  | advance (ns : Int)
  | sync
  | icollect (sender : String) (id : Nat)
  deriving Repr, DecidableEq

/-- one message on the layered state; the full-range record follows the `SetPosition` calls of the message:
 create → `SetPosition(liq)`; withdraw → `SetPosition(liq − req)` (a full withdrawal stores 0 and then deletes the position: nothing is
 subtracted); add = full withdrawal + create; transfer = `deletePosition` + `SetPosition(liq)` for the new owner. -/
def applyG (g : FullG) : GOp → Option FullG
  | .create o l u a0 a1 =>
    (createPosition g.full o l u a0 a1).map fun r => { full := r.1, fullRange := frAdd g.fullRange r.2.2.2.2.2.1 r.2.2.2.2.2.2 r.2.2.2.2.1 }
  | .withdraw o id liq =>
    (findPos g.full.fees.pool id).bind fun pos =>
    (withdrawPosition g.full o id liq).map fun r => { full := r.1, fullRange := frAdd g.fullRange pos.lower pos.upper (pos.liq - liq) }
  | .add o id a0 a1 =>
    (findPos g.full.fees.pool id).bind fun pos =>
    (addToPosition g.full o id a0 a1).map fun r =>
      match findPos r.1.fees.pool r.2.1 with
      | some np => { full := r.1, fullRange := frAdd (frAdd g.fullRange pos.lower pos.upper 0) np.lower np.upper np.liq }
      | none => { full := r.1, fullRange := g.fullRange }
  | .transfer sd id n =>
    (findPos g.full.fees.pool id).bind fun pos =>
    (transferPosition g.full sd id n).map fun f => { full := f, fullRange := frAdd g.fullRange pos.lower pos.upper pos.liq }
  | .swap og zfo spec => (swap g.full og zfo spec).map fun r => { g with full := r.1 }
  | .collect sd id => (collectSpread g.full sd id).map fun r => { g with full := r.1 }
  | .incentive id d a r st u => (createIncentive g.full id d a r st u).map fun f => { g with full := f }
  | .advance ns => some { g with full := advance g.full ns }
  | .sync => (syncNow g.full).map fun f => { g with full := f }
  | .icollect sd id => (collectIncentives g.full sd id).map fun r => { g with full := r.1 }

def stepG (g : FullG) (op : GOp) : FullG :=
  match applyG g op with
  | some g' => g'
  | none => g

def runG (g : FullG) : List GOp → FullG
  | [] => g
  | op :: ops => runG (stepG g op) ops

/-- Σ of the liquidity of the full-range positions -/
def sumFullRange : List Position → Int
  | [] => 0
  | q :: qs => (if isFullRange q.lower q.upper then q.liq else 0) + sumFullRange qs

/-- export → import of the layered state with the record: the record is rebuilt by the `SetPosition` calls of `InitGenesis` on the
empty store, i.e. it is the sum over the exported positions -/
def exportImportG (g : FullG) : Option FullG :=
  (exportImportFull g.full).map fun f => { full := f, fullRange := sumFullRange (sortPosById g.full.fees.pool.positions) }

end OsmoVerif.CLInc
