/-
Model of osmoutils/sumtree (tree.go, node.go, constants.go): an augmented B+ tree kept in a
KVStore under keys  "node/" ++ BE16(level) ++ key.

The KVStore is modelled level by level: level 0 (leaves) is a sorted association list
`key ↦ value`, every level ℓ ≥ 1 is a sorted association list `nodeKey ↦ children`
(`children : List (key × accumulation)`), exactly what a raw dump of the store decodes to.
Keys are byte strings (`List Nat`), ordered bytewise-lexicographically (core `List` order on
`Nat`) = the order of the KVStore iterator inside one level.

All tree-walking functions that go UP (`push`, `pull`, `updateAcc`) take the list of levels
starting at the level of the pointer (head = that level, tail = levels above); the functions
that go DOWN (`accSplit`) take the levels in descending order.  A Go panic (index out of
range, nil dereference, explicit `panic`) is `none`; nothing is totalised.

nil vs. empty slice: the Go code tests `end != nil` in `ptrReverseIterator` (used by
`leftSibling`, hence by `parent`) and `start == nil` / `end == nil` in `SubsetAccumulation`;
a `Ptr` therefore carries `isNil` (meaningful only when `key = []`).  Keys read back from an
iterator are non-nil; `ptrGet(level, nil)` is nil; `ptrGet(level+1, ptr.key)` inherits.

Not modelled: sdk `Int` overflow (|value| ≥ 2^256 panics in Go); the engine stays far below.
Core-only (no Mathlib) so the driver links.
-/
namespace OsmoVerif.SumTree

abbrev Key := List Nat
abbrev Child := Key × Int
abbrev Level := List (Key × List Child)

structure Ptr where
  key : Key
  isNil : Bool
deriving Repr, DecidableEq

/-- `ptrGet(level, nil)` -/
def Ptr.nil : Ptr := ⟨[], true⟩
/-- a pointer whose key was read from an iterator / a non-nil slice -/
def Ptr.of (k : Key) : Ptr := ⟨k, false⟩

/-! ### the KVStore restricted to one level: sorted association list -/
section assoc
variable {β : Type}

/-- `store.Get` -/
def get? : List (Key × β) → Key → Option β
  | [], _ => none
  | (q, w) :: rest, k => if q = k then some w else get? rest k

/-- `store.Has` -/
def has (l : List (Key × β)) (k : Key) : Bool := (get? l k).isSome

/-- `store.Set`: replace, or insert at the sorted position. -/
def put : List (Key × β) → Key → β → List (Key × β)
  | [], k, v => [(k, v)]
  | (q, w) :: rest, k, v =>
    if q = k then (k, v) :: rest
    else if k < q then (k, v) :: (q, w) :: rest
    else (q, w) :: put rest k v

/-- `store.Delete` -/
def del : List (Key × β) → Key → List (Key × β)
  | [], _ => []
  | (q, w) :: rest, k => if q = k then rest else (q, w) :: del rest k

end assoc

/-! ### node.go: pure functions on a node's children -/

/-- `Node.accumulate` -/
def acc : List Child → Int
  | [] => 0
  | c :: cs => c.2 + acc cs

/-- `Node.find`: `(idx, match)`. -/
def find : List Child → Key → Nat × Bool
  | [], _ => (0, false)
  | c :: rest, k =>
    if c.1 = k then (0, true)
    else if k < c.1 then (0, false)
    else ((find rest k).1 + 1, (find rest k).2)

/-- `Node.setAcc` -/
def setAcc : List Child → Nat → Int → List Child
  | [], _, _ => []
  | c :: rest, 0, a => (c.1, a) :: rest
  | c :: rest, i + 1, a => c :: setAcc rest i a

/-- `Node.insert` -/
def insertAt : List Child → Nat → Child → List Child
  | cs, 0, c => c :: cs
  | [], _ + 1, c => [c]
  | d :: cs, i + 1, c => d :: insertAt cs i c

/-- `Node.delete` -/
def deleteAt : List Child → Nat → List Child
  | [], _ => []
  | _ :: cs, 0 => cs
  | d :: cs, i + 1 => d :: deleteAt cs i

/-! ### pointers: parent / siblings inside one level (`lv` = the level the result lives in) -/

/-- `ptrReverseIterator(level, nil, p.key).ptr()`: last node of the level with key `< p.key`;
the whole level when `p.key` is the nil slice. -/
def leftSib (lv : Level) (p : Ptr) : Option Key :=
  if p.isNil && p.key = [] then (lv.getLast?).map (·.1)
  else ((lv.filter (fun n => n.1 < p.key)).getLast?).map (·.1)

/-- `ptr.rightSibling()`: first node with key `≥ p.key`, skipping one entry when `p` exists. -/
def rightSib (lv : Level) (p : Ptr) : Option Key :=
  let ge := lv.filter (fun n => ¬ n.1 < p.key)
  ((if has lv p.key then ge.drop 1 else ge).head?).map (·.1)

/-- `ptr.parent()` where `lv` is level `ptr.level+1`. -/
def parentIn (lv : Level) (p : Ptr) : Ptr :=
  if has lv p.key then p
  else match leftSib lv p with
    | some q => Ptr.of q
    | none => Ptr.nil

/-- `ptr.parent()` given the list of levels above `ptr`. -/
def parentPtr (up : List Level) (p : Ptr) : Ptr :=
  match up with
  | [] => Ptr.nil
  | lv :: _ => parentIn lv p

/-- `ptr.exists()` for a pointer into the first level of `up`. -/
def existsPtr (up : List Level) (p : Ptr) : Bool :=
  match up with
  | [] => false
  | lv :: _ => has lv p.key

/-! ### updateAccumulation / push / pull (levels ascending, head = level of the pointer) -/

/-- `ptr.updateAccumulation(c)` -/
def updateAcc : List Level → Ptr → Child → Option (List Level)
  | [], _, _ => some []
  | lv :: up, p, c =>
    match get? lv p.key with
    | none => some (lv :: up)                       -- reached above the root
    | some cs =>
      if (find cs c.1).2 then
        let cs' := setAcc cs (find cs c.1).1 c.2
        match updateAcc up (parentPtr up p) (p.key, acc cs') with
        | none => none
        | some up' => some (put lv p.key cs' :: up')
      else none                                     -- "non existing key pushed from the child"

/-- `ptr.create(node)` for a pointer into the first level of `up` (which may not exist yet). -/
def createIn (up : List Level) (k : Key) (cs : List Child) : List Level :=
  match up with
  | [] => [[(k, cs)]]
  | lv :: rest => put lv k cs :: rest

/-- `ptr.push(c)`; `m` is the fan-out (uint8 in Go, `m/2+1 ≤ 128` cannot overflow). -/
def push (m : Nat) : List Level → Ptr → Child → Option (List Level)
  | [], p, c => some [[(p.key, [c])]]
  | lv :: up, p, c =>
    match get? lv p.key with
    | none => some (put lv p.key [c] :: up)
    | some cs =>
      if (find cs c.1).2 then updateAcc (lv :: up) p c
      else
        let cs' := insertAt cs (find cs c.1).1 c
        let parent := parentPtr up p
        if cs'.length > m then
          let split := m / 2 + 1
          let left := cs'.take split
          let right := cs'.drop split
          match right with
          | [] => none                              -- `cs.Children[split]` out of range
          | r0 :: _ =>
            let lv1 := put lv r0.1 right            -- create(rightnode)
            if !(existsPtr up parent) then
              some (put lv1 p.key left :: createIn up parent.key [(p.key, acc left), (r0.1, acc right)])
            else
              match push m up parent (r0.1, acc right) with
              | none => none
              | some up1 =>
                match updateAcc up1 (parentPtr up1 p) (p.key, acc left) with
                | none => none
                | some up2 => some (put lv1 p.key left :: up2)
        else
          match updateAcc up parent (p.key, acc cs') with
          | none => none
          | some up2 => some (put lv p.key cs' :: up2)

/-- `ptr.pull(key)`; `fuel` bounds the recursion depth (one level per call; callers pass
`levels.length + 1`). -/
def pull (m : Nat) : Nat → List Level → Ptr → Key → Option (List Level)
  | 0, _, _, _ => none
  | _ + 1, [], _, _ => some []
  | fuel + 1, lv :: up, p, k =>
    match get? lv p.key with
    | none => some (lv :: up)
    | some cs =>
      if (find cs k).2 then
        let cs' := deleteAt cs (find cs k).1
        if cs'.length > 0 then
          match updateAcc up (parentPtr up p) (p.key, acc cs') with
          | none => none
          | some up' => some (put lv p.key cs' :: up')
        else
          let left := leftSib lv p
          let right := rightSib lv p
          let parent := parentPtr up p
          let lv1 := del lv p.key
          match pull m fuel up parent p.key with
          | none => none
          | some up1 =>
            match left, right with
            | some l, some r =>
              -- `left.exists() && right.exists()` re-read the store after `ptr.delete()`
              if has lv1 l && has lv1 r then
                let par := parentPtr up1 (Ptr.of l)
                if par.key = (parentPtr up1 (Ptr.of r)).key then
                  match get? lv1 l, get? lv1 r with
                  | some ln, some rn =>
                    if ln.length + rn.length < m then
                      let lv2 := del (put lv1 l (ln ++ rn)) r
                      match pull m fuel up1 par r with
                      | none => none
                      | some up2 =>
                        -- NB `leftnode.accumulate()` is the accumulation BEFORE the merge
                        match updateAcc up2 par (l, acc ln) with
                        | none => none
                        | some up3 => some (lv2 :: up3)
                    else some (lv1 :: up1)
                  | _, _ => some (lv1 :: up1)
                else some (lv1 :: up1)
              else some (lv1 :: up1)
            | _, _ => some (lv1 :: up1)
      else none                                     -- "pulling non existing child"

/-! ### the tree -/

structure Store where
  m : Nat
  leaves : List (Key × Int)
  levels : List Level
deriving Repr, DecidableEq

/-- `Tree.Set` -/
def set (s : Store) (k : Ptr) (v : Int) : Option Store :=
  match push s.m s.levels (parentPtr s.levels k) (k.key, v) with
  | none => none
  | some lv => some { s with leaves := put s.leaves k.key v, levels := lv }

/-- `NewTree` on an empty store: `Set(nil, 0)`. -/
def new (m : Nat) : Option Store := set ⟨m, [], []⟩ Ptr.nil 0

/-- `Tree.Get` -/
def get (s : Store) (k : Key) : Int :=
  match get? s.leaves k with
  | some v => v
  | none => 0

/-- `Tree.Increase` -/
def increase (s : Store) (k : Ptr) (amt : Int) : Option Store := set s k (get s k.key + amt)
/-- `Tree.Decrease` -/
def decrease (s : Store) (k : Ptr) (amt : Int) : Option Store := increase s k (-amt)

/-- `Tree.Remove` -/
def remove (s : Store) (k : Ptr) : Option Store :=
  if has s.leaves k.key then
    match pull s.m (s.levels.length + 1) s.levels (parentPtr s.levels k) k.key with
    | none => none
    | some lv => some { s with leaves := del s.leaves k.key, levels := lv }
  else some s

/-- levels in descending order starting with the highest non-empty one. -/
def descLevels (s : Store) : List Level := s.levels.reverse.dropWhile (fun lv => lv.isEmpty)

/-- `Tree.root()`: key of the last entry of the store (highest level, largest key). -/
def rootKey (s : Store) : Option Key :=
  match descLevels s with
  | [] => (s.leaves.getLast?).map (·.1)
  | lv :: _ => (lv.getLast?).map (·.1)

/-- `ptr.accumulationSplit(key)`; `desc` = levels from the pointer's level downwards
(`[]` = the pointer is a leaf). -/
def accSplit (leaves : List (Key × Int)) : List Level → Key → Key → Option (Int × Int × Int)
  | [], p, k =>
    match get? leaves p with
    | none => none                                  -- nil leaf dereference
    | some v => if p < k then some (v, 0, 0) else if p = k then some (0, v, 0) else some (0, 0, v)
  | lv :: below, p, k =>
    match get? lv p with
    | none => none                                  -- empty node, `Children[-1]`
    | some cs =>
      let f := find cs k
      if !f.2 && f.1 = 0 then none                  -- `idx--` gives -1
      else
        let i := if f.2 then f.1 else f.1 - 1
        match cs[i]? with
        | none => none
        | some ch =>
          match accSplit leaves below ch.1 k with
          | none => none
          | some (l, e, r) => some (l + acc (cs.take i), e, r + acc (cs.drop (i + 1)))

/-- `Tree.SplitAcc` -/
def splitAcc (s : Store) (k : Key) : Option (Int × Int × Int) :=
  match rootKey s with
  | none => none                                    -- nil root
  | some r => accSplit s.leaves (descLevels s) r k

/-- `Tree.SubsetAccumulation(start, end)` -/
def subset (s : Store) (lo hi : Ptr) : Option Int :=
  if lo.isNil && lo.key = [] then
    match splitAcc s hi.key with
    | none => none
    | some (l, e, _) => some (l + e)
  else if hi.isNil && hi.key = [] then
    match splitAcc s lo.key with
    | none => none
    | some (_, e, r) => some (e + r)
  else
    match splitAcc s lo.key, splitAcc s hi.key with
    | some (_, le, lr), some (_, _, rr) => some (le + lr - rr)
    | _, _ => none

/-- `Tree.PrefixSum(key) = SubsetAccumulation(nil, key)` -/
def prefixSum (s : Store) (k : Ptr) : Option Int := subset s Ptr.nil k
/-- `Tree.TotalAccumulatedValue()`: left + exact + right of `root.accumulationSplit(nil)`
(since the `fix:` commit; before it `SubsetAccumulation(nil, nil)` = the value at the empty key). -/
def total (s : Store) : Option Int := (splitAcc s []).map fun r => r.1 + r.2.1 + r.2.2
/-- `Tree.Iterator(nil, nil)` decoded -/
def iterate (s : Store) : List (Key × Int) := s.leaves

/-- the KVStore iterator over the leaf level, `[nodeKey(0, lo), hiBytes)`: seek to the first key `≥ lo`, then
scan while the key is below the upper bound.  All leaf keys share the prefix `"node/" ++ BE16(0)`, so the byte
comparison of the store keys is the comparison of the tree keys; `hi = none` stands for
`PrefixEndBytes(nodeKey(0, nil))`, the end of the level. -/
def scan (lo : Key) (hi : Option Key) (l : List (Key × Int)) : List (Key × Int) :=
  (l.dropWhile (fun kv => decide (kv.1 < lo))).takeWhile
    (fun kv => match hi with
      | none => true
      | some h => decide (kv.1 < h))

/-- upper bound of `ptrIterator` / `ptrReverseIterator`: the Go code tests `end != nil`, so the empty NON-nil
slice is the (exclusive) bound "empty key" and selects nothing. -/
def endBound (e : Ptr) : Option Key := if e.isNil && e.key = [] then none else some e.key

/-- `Tree.Iterator(begin, end)` decoded (`begin` nil or empty: from the first leaf). -/
def iterRange (s : Store) (b e : Ptr) : List (Key × Int) := scan b.key (endBound e) s.leaves
/-- `Tree.ReverseIterator(begin, end)` decoded: the same range, descending. -/
def iterRangeRev (s : Store) (b e : Ptr) : List (Key × Int) := (iterRange s b e).reverse

end OsmoVerif.SumTree
