/-
State-machine model of one concentrated-liquidity pool: lp.go (createPosition / WithdrawPosition /
UpdatePosition / initializeInitialPositionForPool / uninitializePool), tick.go (initOrUpdateTick,
validateTickRangeIsValid, roundTickToCanonicalPriceTick), model/pool.go (CalcActualAmounts,
UpdateLiquidityIfActivePosition, ApplySwap) and swaps.go (through `CL.execSwap`), with the bank
balances of the pool address and of the spread-reward address.
Not in this model (decided by the engine's oracles only): the spread-reward and uptime accumulators,
incentive records, CosmWasm hooks, positions with an underlying lock.  Core only.
-/
import OsmoVerif.Model.CL

namespace OsmoVerif.CLPool
open OsmoVerif.Num OsmoVerif.MathM OsmoVerif.Tick OsmoVerif.CL OsmoVerif.Gen

structure TickInfo where
  tick : Int
  gross : Int   -- Dec
  net : Int     -- Dec
  deriving Repr, DecidableEq

structure Position where
  id : Nat
  owner : String
  lower : Int
  upper : Int
  liq : Int     -- Dec
  deriving Repr, DecidableEq

structure Pool where
  spacing : Int
  spf : Int                 -- spread factor, Dec
  scale : Int := 10 ^ 18    -- spread-reward accumulator scaling factor of this pool (Dec; one or 10^27)
  sqrtPrice : Int := 0      -- BigDec
  tick : Int := 0
  liquidity : Int := 0      -- Dec
  ticks : List TickInfo := []       -- sorted by tick
  positions : List Position := []   -- in creation order
  nextId : Nat := 1
  bal0 : Int := 0           -- pool address balances
  bal1 : Int := 0
  fee0 : Int := 0           -- spread-reward address balances
  fee1 : Int := 0
  deriving Repr

/-- `validateTickRangeIsValid`. (Go `%` truncates; divisibility is the same.) -/
def validRange (spacing lower upper : Int) : Bool :=
  lower.tmod spacing = 0 ∧ upper.tmod spacing = 0 ∧
  ¬ (lower < CL.MinInitializedTick ∨ lower ≥ CL.MaxTick) ∧
  ¬ (upper > CL.MaxTick ∨ upper ≤ CL.MinInitializedTick) ∧
  lower < upper

/-- `initOrUpdateTick` on the sorted tick list; a tick whose gross and net are both zero afterwards is
reported empty (and removed by the caller on withdraw). -/
def updTick (ticks : List TickInfo) (t delta : Int) (upper : Bool) : List TickInfo :=
  let signed := if upper then -delta else delta
  match ticks with
  | [] => [⟨t, delta, signed⟩]
  | x :: xs =>
    if x.tick = t then ⟨t, x.gross + delta, x.net + signed⟩ :: xs
    else if t < x.tick then ⟨t, delta, signed⟩ :: x :: xs
    else x :: updTick xs t delta upper

def tickEmpty (ticks : List TickInfo) (t : Int) : Bool :=
  match ticks.find? (·.tick = t) with
  | some x => x.gross = 0 ∧ x.net = 0
  | none => true

def removeTick (ticks : List TickInfo) (t : Int) : List TickInfo := ticks.filter (·.tick ≠ t)

def inRange (p : Pool) (lower upper : Int) : Bool := p.tick ≥ lower ∧ p.tick < upper

/-- `Pool.CalcActualAmounts` (Dec results). -/
def calcActualAmounts (p : Pool) (lower upper delta : Int) : Option (Int × Int) :=
  if delta = 0 then none else do
    if lower ≥ upper then none else pure ()
    let spU ← tickToSqrtPrice upper
    let spL ← tickToSqrtPrice lower
    let roundUp : Bool := delta > 0
    let (a0, a1) ←
      if inRange p lower upper then do
        let x ← calcAmount0Delta delta p.sqrtPrice spU roundUp
        let y ← calcAmount1Delta delta p.sqrtPrice spL roundUp
        pure (x, y)
      else if p.tick < lower then do
        let x ← calcAmount0Delta delta spL spU roundUp
        pure (x, 0)
      else do
        let y ← calcAmount1Delta delta spL spU roundUp
        pure (0, y)
    if roundUp then do
      let x ← BigDec.decRoundUp a0
      let y ← BigDec.decRoundUp a1
      pure (x, y)
    else do
      let x ← BigDec.dec a0
      let y ← BigDec.dec a1
      pure (x, y)

/-- `UpdatePosition` for a position id: ticks, position record, actual amounts (truncated Ints, signed),
pool liquidity. -/
def updatePosition (p : Pool) (id : Nat) (owner : String) (lower upper delta : Int) :
    Option (Pool × Int × Int × Bool × Bool) := do
  let ticks1 := updTick p.ticks lower delta false
  let ticks2 := updTick ticks1 upper delta true
  let lowerEmpty := tickEmpty ticks2 lower
  let upperEmpty := tickEmpty ticks2 upper
  let oldLiq := match p.positions.find? (·.id = id) with
    | some q => q.liq
    | none => 0
  let newLiq := oldLiq + delta
  if newLiq < 0 then none else
  let positions :=
    if p.positions.any (·.id = id) then p.positions.map fun q => if q.id = id then { q with liq := newLiq } else q
    else p.positions ++ [⟨id, owner, lower, upper, newLiq⟩]
  let (a0, a1) ← calcActualAmounts p lower upper delta
  let liq' := if inRange p lower upper then p.liquidity + delta else p.liquidity
  let x0 ← Dec.truncateInt a0
  let x1 ← Dec.truncateInt a1
  some ({ p with ticks := ticks2, positions := positions, liquidity := liq' }, x0, x1, lowerEmpty, upperEmpty)

/-- `createPosition` (no hooks, no minimum amounts). Returns id, amounts sent to the pool, liquidity and
the canonical ticks. -/
def createPositionMin (p : Pool) (owner : String) (lower upper amount0 amount1 min0 min1 : Int) :
    Option (Pool × Nat × Int × Int × Int × Int × Int) := do
  if ¬ validRange p.spacing lower upper then none else pure ()
  if amount0 = 0 ∧ amount1 = 0 then none else pure ()
  let spL ← tickToSqrtPrice lower
  let spU ← tickToSqrtPrice upper
  -- roundTickToCanonicalPriceTick
  let lower' ← sqrtPriceToTickRoundDownSpacing spL p.spacing
  let upper' ← sqrtPriceToTickRoundDownSpacing spU p.spacing
  if (lower ≠ lower' ∨ upper ≠ upper') ∧ ¬ validRange p.spacing lower' upper' then none else pure ()
  let id := p.nextId
  let p1 : Pool := { p with nextId := p.nextId + 1 }
  -- initializeInitialPositionForPool
  let p2 ← if p1.positions.isEmpty then do
      if amount0 ≤ 0 ∨ amount1 ≤ 0 then none else pure ()
      let price ← Dec.quo (amount1 * P18) (amount0 * P18)
      let s ← monotonicSqrt price
      let sp ← BigDec.fromDec s
      let t ← sqrtPriceToTickRoundDownSpacing sp p1.spacing
      pure { p1 with sqrtPrice := sp, tick := t }
    else pure p1
  let liq ← liquidityFromAmounts p2.sqrtPrice spL spU amount0 amount1
  if liq = 0 then none else pure ()
  let (p3, a0, a1, _, _) ← updatePosition p2 id owner lower' upper' liq
  if a0 < min0 ∨ a1 < min1 then none else pure ()          -- InsufficientLiquidityCreatedError
  if a0 < 0 ∨ a1 < 0 then none else pure ()
  some ({ p3 with bal0 := p3.bal0 + a0, bal1 := p3.bal1 + a1 }, id, a0, a1, liq, lower', upper')

def createPosition (p : Pool) (owner : String) (lower upper amount0 amount1 : Int) :
    Option (Pool × Nat × Int × Int × Int × Int × Int) :=
  createPositionMin p owner lower upper amount0 amount1 0 0

/-- `WithdrawPosition` (no locks, incentives not modelled). -/
def withdrawPosition (p : Pool) (owner : String) (id : Nat) (req : Int) : Option (Pool × Int × Int) := do
  let pos ← p.positions.find? (·.id = id)
  if owner ≠ pos.owner then none else pure ()
  if req < 0 then none else pure ()
  if req > pos.liq then none else pure ()
  let (p1, a0, a1, lowerEmpty, upperEmpty) ← updatePosition p id owner pos.lower pos.upper (-req)
  let out0 : Int := a0.natAbs
  let out1 : Int := a1.natAbs
  if p1.bal0 < out0 ∨ p1.bal1 < out1 then none else pure ()   -- bank send fails on insufficient pool funds
  let p2 : Pool := { p1 with bal0 := p1.bal0 - out0, bal1 := p1.bal1 - out1 }
  let p3 : Pool :=
    if req = pos.liq then
      let ps := p2.positions.filter (·.id ≠ id)
      if ps.isEmpty then { p2 with positions := ps, sqrtPrice := 0, tick := 0 } else { p2 with positions := ps }
    else p2
  let t1 := if lowerEmpty then removeTick p3.ticks pos.lower else p3.ticks
  let t2 := if upperEmpty then removeTick t1 pos.upper else t1
  some ({ p3 with ticks := t2 }, out0, out1)

/-- `addToPosition`: withdraw everything, then create a new position (new id) over the same range with
the withdrawn plus the added amounts; the withdrawn amounts are the minimum the new position must take. -/
def addToPosition (p : Pool) (owner : String) (id : Nat) (add0 add1 : Int) :
    Option (Pool × Nat × Int × Int) := do
  let pos ← p.positions.find? (·.id = id)
  if owner ≠ pos.owner then none else pure ()
  if add0 < 0 ∨ add1 < 0 then none else pure ()
  if add0 = 0 ∧ add1 = 0 then none else pure ()
  let (p1, w0, w1) ← withdrawPosition p owner id pos.liq
  if p1.positions.isEmpty then none else pure ()            -- AddToLastPositionInPoolError
  let (p2, nid, a0, a1, _, _, _) ← createPositionMin p1 owner pos.lower pos.upper (w0 + add0) (w1 + add1) w0 w1
  some (p2, nid, a0, a1)

/-- `transferPositions` for one position id (sender must be the owner; the gov module account is not modelled). -/
def transferPosition (p : Pool) (sender : String) (id : Nat) (newOwner : String) : Option Pool := do
  let pos ← p.positions.find? (·.id = id)
  if sender ≠ pos.owner then none else pure ()
  if (p.positions.filter (·.id ≠ id)).isEmpty then none else pure ()   -- LastPositionTransferError
  -- deletePosition + SetPosition: same id, same range, same liquidity, new owner
  some { p with positions := p.positions.map fun q => if q.id = id then { q with owner := newOwner } else q }

/-- `SwapExactAmountIn` / `SwapExactAmountOut` on the pool's own state. -/
def swap (p : Pool) (outGivenIn zfo : Bool) (specified : Int) : Option (Pool × Int × Int × Int) := do
  if p.positions.isEmpty then none else pure ()      -- NoSpotPriceWhenNoLiquidityError
  let (r, fee) ← execSwapS p.scale outGivenIn zfo p.spf ⟨p.sqrtPrice, p.tick, p.liquidity⟩ (p.ticks.map fun t => (t.tick, t.net)) specified
  -- updatePoolForSwap: tokenIn − fee to the pool, fee to the spread-reward address, tokenOut from the pool
  let toPool := r.amountIn - fee
  -- bank.SendCoins rejects a coin with a non-positive amount (invalid coins): tokenIn − fee and tokenOut
  if toPool ≤ 0 ∨ r.amountOut ≤ 0 then none else pure ()
  let p1 : Pool := { p with sqrtPrice := r.pool.sqrtPrice, tick := r.pool.tick, liquidity := r.pool.liquidity }
  if zfo then
    if p1.bal1 < r.amountOut then none
    else some ({ p1 with bal0 := p1.bal0 + toPool, fee0 := p1.fee0 + fee, bal1 := p1.bal1 - r.amountOut }, r.amountIn, r.amountOut, fee)
  else
    if p1.bal0 < r.amountOut then none
    else some ({ p1 with bal1 := p1.bal1 + toPool, fee1 := p1.fee1 + fee, bal0 := p1.bal0 - r.amountOut }, r.amountIn, r.amountOut, fee)

end OsmoVerif.CLPool
