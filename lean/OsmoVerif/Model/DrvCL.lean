/- line protocol for the `clmath` (pure) and `cl` (app) engines -/
import OsmoVerif.Model.CL
import OsmoVerif.Model.CLRewards
import OsmoVerif.Model.DrvNum
namespace OsmoVerif.CL
open OsmoVerif.Num

def ints (args : List String) : Option (List Int) := args.mapM String.toInt?
def bool? (s : String) : Option Bool := if s = "1" then some true else if s = "0" then some false else none

def parseTicks : List String → Option Ticks
  | [] => some []
  | x :: xs =>
    match x.splitOn ":" with
    | [t, n] => do
      let t ← t.toInt?
      let n ← n.toInt?
      let r ← parseTicks xs
      some ((t, n) :: r)
    | _ => none

def showStep : Option StepResult → String
  | some r => s!"ok {r.sqrtPriceNext} {r.amountSpecified} {r.amountOther} {r.spreadCharge}"
  | none => "panic"

def stepCL (op : String) (args : List String) : String :=
  match op, args with
  | "a0d", [liq, a, b, ru] => match ints [liq, a, b], bool? ru with
    | some [liq, a, b], some ru => showOpt (calcAmount0Delta liq a b ru)
    | _, _ => "bad-op"
  | "a1d", [liq, a, b, ru] => match ints [liq, a, b], bool? ru with
    | some [liq, a, b], some ru => showOpt (calcAmount1Delta liq a b ru)
    | _, _ => "bad-op"
  | "nsp0in", [sp, liq, amt] => match ints [sp, liq, amt] with
    | some [sp, liq, amt] => showOpt (nextSqrtPriceAmount0In sp liq amt)
    | _ => "bad-op"
  | "nsp0out", [sp, liq, amt] => match ints [sp, liq, amt] with
    | some [sp, liq, amt] => showOpt (nextSqrtPriceAmount0Out sp liq amt)
    | _ => "bad-op"
  | "nsp1in", [sp, liq, amt] => match ints [sp, liq, amt] with
    | some [sp, liq, amt] => showOpt (nextSqrtPriceAmount1In sp liq amt)
    | _ => "bad-op"
  | "nsp1out", [sp, liq, amt] => match ints [sp, liq, amt] with
    | some [sp, liq, amt] => showOpt (nextSqrtPriceAmount1Out sp liq amt)
    | _ => "bad-op"
  | "liq0", [amt, a, b] => match ints [amt, a, b] with
    | some [amt, a, b] => showOpt (liquidity0 amt a b)
    | _ => "bad-op"
  | "liq1", [amt, a, b] => match ints [amt, a, b] with
    | some [amt, a, b] => showOpt (liquidity1 amt a b)
    | _ => "bad-op"
  | "liqamts", [sp, a, b, a0, a1] => match ints [sp, a, b, a0, a1] with
    | some [sp, a, b, a0, a1] => showOpt (liquidityFromAmounts sp a b a0 a1)
    | _ => "bad-op"
  | "growth", [charge, liq, scale] => match ints [charge, liq, scale] with
    | some [charge, liq, scale] => showOpt (CLRewards.spreadGrowth charge liq scale)
    | _ => "bad-op"
  | "stepOGI", [zfo, spf, sp, target, liq, rem] => match bool? zfo, ints [spf, sp, target, liq, rem] with
    | some zfo, some [spf, sp, target, liq, rem] => showStep (stepOutGivenIn zfo spf sp target liq rem)
    | _, _ => "bad-op"
  | "stepIGO", [zfo, spf, sp, target, liq, rem] => match bool? zfo, ints [spf, sp, target, liq, rem] with
    | some zfo, some [spf, sp, target, liq, rem] => showStep (stepInGivenOut zfo spf sp target liq rem)
    | _, _ => "bad-op"
  | "swap", ogi :: zfo :: spf :: sp :: tick :: liq :: specified :: ticks =>
    match bool? ogi, bool? zfo, ints [spf, sp, tick, liq, specified], parseTicks ticks with
    | some ogi, some zfo, some [spf, sp, tick, liq, specified], some ticks =>
      match execSwap ogi zfo spf ⟨sp, tick, liq⟩ ticks specified with
      | some (r, fee) => s!"ok in={r.amountIn} out={r.amountOut} spread={r.spreadRewards} fee={fee} sp={r.pool.sqrtPrice} tick={r.pool.tick} liq={r.pool.liquidity}"
      | none => "err"
    | _, _, _, _ => "bad-op"
  | "est", ogi :: zfo :: spf :: sp :: tick :: liq :: specified :: ticks =>
    match bool? ogi, bool? zfo, ints [spf, sp, tick, liq, specified], parseTicks ticks with
    | some ogi, some zfo, some [spf, sp, tick, liq, specified], some ticks =>
      match estimateSwap ogi zfo spf ⟨sp, tick, liq⟩ ticks specified with
      | some a => s!"ok {a}"
      | none => "err"
    | _, _, _, _ => "bad-op"
  | _, _ => "bad-op"

end OsmoVerif.CL
