/-
Model of x/lockup (keeper/{lock,lock_refs,store,iterator,msg_server,utils}.go, types/{keys,lock,msgs}.go)
over an abstract bank ledger.  Core only.

* Durations are `time.Duration` values (raw `Int` nanoseconds); times are unix nanoseconds.  The zero
  `time.Time{}` ("not unlocking") is `none`.
* Lock records: `locks : List Lock` is the `KeyPrefixPeriodLock` store (keyed by id).
* Reference index: the store entries `combineKeys(prefix, refKey, lockIDBz) ↦ lockID` are the pairs
  `(RefKey, id)` of `refs`; a `RefKey` is the unlocking prefix (0x03 / 0x04) with one of the eight
  key families of `durationLockRefKeys` / `lockRefKeys` (utils.go), kept symbolic (the byte encodings are
  order-preserving and prefix-free for fixed-length addresses and denominations none of which is a
  proper prefix of another: this is the modelling assumption for the range iterators).
* Accumulation store: lockup only calls `Increase`/`Decrease`/`SubsetAccumulation(begin, nil)` on the
  per-denom sum tree; it is the map `(denom, uint64(duration)) ↦ amount` (`accum`), a query sums every
  entry of the denom with key ≥ the begin key.
* Synthetic locks are not modelled (no lock has one): `HasAnySyntheticLockups` is `false`, and
  `GetSyntheticLockupByUnderlyingLockId` returns the zero value, so that `AddTokensToLockByID` performs
  its stray `Increase` on the accumulation store of denom `""` at key 0 (reproduced, DESIGN F6).
* CL share denominations (`cl/pool/<id>`, prefix regenerated into `Gen.Lockup`): the shares are minted into the
  module account by the concentrated-liquidity keeper, which then calls `CreateLockNoSend` (`clLock`; the CL
  arithmetic that fixes the number of shares is outside this model: the amount is an input of the operation);
  on withdrawal `unlockMaturedLockInternalLogic` burns them instead of paying them out (`burnCoinFromModule`).
* An error / panic of the Go code is `none`; the caller (`step`) then leaves the state unchanged
  (the transaction's cache context is dropped).
-/
import OsmoVerif.Gen.Lockup
namespace OsmoVerif.Lockup

abbrev Denom := String
abbrev Addr := String
/-- `sdk.Coins`: sorted by denom, no zero amounts. -/
abbrev Coins := List (Denom × Int)

structure Lock where
  id : Nat
  owner : Addr
  duration : Int
  endTime : Option Int          -- none = time.Time{} (not unlocking)
  coins : Coins
  rewardReceiver : Addr         -- "" = the owner (DefaultOwnerReceiverPlaceholder)
  deriving DecidableEq, Repr

/-- the eight key families of utils.go (`KeyPrefixLockDuration` … `KeyPrefixAccountDenomLockTimestamp`). -/
inductive IdxKey where
  | dur (d : Int)
  | ownerDur (o : Addr) (d : Int)
  | denomDur (dn : Denom) (d : Int)
  | ownerDenomDur (o : Addr) (dn : Denom) (d : Int)
  | time (t : Option Int)
  | ownerTime (o : Addr) (t : Option Int)
  | denomTime (dn : Denom) (t : Option Int)
  | ownerDenomTime (o : Addr) (dn : Denom) (t : Option Int)
  deriving DecidableEq, Repr

/-- `combineKeys(unlockingPrefix(b), refKey)`. -/
structure RefKey where
  unlocking : Bool
  key : IdxKey
  deriving DecidableEq, Repr

structure State where
  bal : List ((Addr × Denom) × Int) := []       -- bank: account balances
  modBal : List (Denom × Int) := []             -- bank: lockup module account
  locks : List Lock := []
  lastLockId : Nat := 0
  refs : List (RefKey × Nat) := []
  accum : List ((Denom × Int) × Int) := []      -- (denom, duration key) ↦ amount
  forceAllowed : List Addr := []                -- params.ForceUnlockAllowedAddresses
  deriving Repr

/-! ## association lists (missing key = 0) -/

def aget {κ : Type} [DecidableEq κ] : List (κ × Int) → κ → Int
  | [], _ => 0
  | (k', v) :: rest, k => if k' = k then v else aget rest k

def aadd {κ : Type} [DecidableEq κ] : List (κ × Int) → κ → Int → List (κ × Int)
  | [], k, a => [(k, a)]
  | (k', v) :: rest, k, a => if k' = k then (k', v + a) :: rest else (k', v) :: aadd rest k a

/-! ## coins -/

def amountOf : Coins → Denom → Int
  | [], _ => 0
  | (d', a) :: rest, d => (if d' = d then a else 0) + amountOf rest d

/-- one step of `Coins.Add` (sorted merge of a single coin, zero results dropped). -/
def addCoin : Coins → Denom → Int → Coins
  | [], d, a => if a = 0 then [] else [(d, a)]
  | (d', a') :: rest, d, a =>
    if d = d' then (if a' + a = 0 then rest else (d', a' + a) :: rest)
    else if d < d' then (if a = 0 then (d', a') :: rest else (d, a) :: (d', a') :: rest)
    else (d', a') :: addCoin rest d a

def Coins.add (a b : Coins) : Coins := b.foldl (fun acc c => addCoin acc c.1 c.2) a

/-- `Coins.Sub`: panics (none) when a result is negative. -/
def Coins.sub (a b : Coins) : Option Coins :=
  let r := b.foldl (fun acc c => addCoin acc c.1 (-c.2)) a
  if r.any (fun c => c.2 < 0) then none else some r

/-- `a.IsAllLTE(b)` (= `b.IsAllGTE(a)`). -/
def Coins.isAllLTE (a b : Coins) : Bool :=
  if a.isEmpty then true else if b.isEmpty then false else a.all (fun c => c.2 ≤ amountOf b c.1)

def Coins.allPositive (a : Coins) : Bool := a.all (fun c => 0 < c.2)

def Coins.sortedStrict : Coins → Bool
  | [] => true
  | [_] => true
  | a :: b :: rest => decide (a.1 < b.1) && Coins.sortedStrict (b :: rest)

/-- `Coins.IsValid`: denominations valid (here: non-empty), amounts positive, strictly sorted. -/
def Coins.valid (a : Coins) : Bool := a.all (fun c => c.1 ≠ "" ∧ 0 < c.2) && a.sortedStrict

/-! ## CL share denominations -/

def isPrefixL : List Char → List Char → Bool
  | [], _ => true
  | _ :: _, [] => false
  | a :: s, b :: t => a = b && isPrefixL s t

/-- `strings.HasPrefix(denom, cltypes.ConcentratedLiquidityTokenPrefix)`. -/
def isCLDenom (dn : Denom) : Bool := isPrefixL Gen.Lockup.ConcentratedLiquidityTokenPrefix.toList dn.toList

/-! ## bank -/

def sendCoinToModule (s : State) (o : Addr) (dn : Denom) (a : Int) : Option State :=
  if dn = "" ∨ a ≤ 0 then none
  else if aget s.bal (o, dn) < a then none
  else some { s with bal := aadd s.bal (o, dn) (-a), modBal := aadd s.modBal dn a }

def sendCoinFromModule (s : State) (o : Addr) (dn : Denom) (a : Int) : Option State :=
  if dn = "" ∨ a ≤ 0 then none
  else if aget s.modBal dn < a then none
  else some { s with bal := aadd s.bal (o, dn) a, modBal := aadd s.modBal dn (-a) }

/-- `MintCoins(lockup, [coin])`. -/
def mintCoinToModule (s : State) (dn : Denom) (a : Int) : Option State :=
  if dn = "" ∨ a ≤ 0 then none
  else some { s with modBal := aadd s.modBal dn a }

/-- `BurnCoins(lockup, [coin])`. -/
def burnCoinFromModule (s : State) (dn : Denom) (a : Int) : Option State :=
  if dn = "" ∨ a ≤ 0 then none
  else if aget s.modBal dn < a then none
  else some { s with modBal := aadd s.modBal dn (-a) }

/-- `SendCoinsFromAccountToModule(owner, lockup, coins)`. -/
def sendToModule (s : State) (o : Addr) (c : Coins) : Option State :=
  c.foldlM (fun s c => sendCoinToModule s o c.1 c.2) s

/-- `SendCoinsFromModuleToAccount(lockup, owner, coins)`. -/
def sendFromModule (s : State) (o : Addr) (c : Coins) : Option State :=
  c.foldlM (fun s c => sendCoinFromModule s o c.1 c.2) s

/-! ## lock store -/

def getLockL (locks : List Lock) (id : Nat) : Option Lock := locks.find? (fun l => l.id = id)

def setLockL : List Lock → Lock → List Lock
  | [], l => [l]
  | x :: xs, l => if x.id = l.id then l :: xs else x :: setLockL xs l

def deleteLockL (locks : List Lock) (id : Nat) : List Lock := locks.filter (fun l => l.id ≠ id)

def getLock (s : State) (id : Nat) : Option Lock := getLockL s.locks id
def setLock (s : State) (l : Lock) : State := { s with locks := setLockL s.locks l }
def deleteLock (s : State) (id : Nat) : State := { s with locks := deleteLockL s.locks id }

def Lock.isUnlocking (l : Lock) : Bool := l.endTime.isSome

/-! ## reference keys (utils.go) -/

/-- `getDurationKey`: negative durations are clamped to 0. -/
def durKey (d : Int) : Int := if d < 0 then 0 else d

def durationLockRefKeys (l : Lock) : List IdxKey :=
  [IdxKey.dur (durKey l.duration), IdxKey.ownerDur l.owner (durKey l.duration)] ++
  l.coins.flatMap (fun c => [IdxKey.denomDur c.1 (durKey l.duration), IdxKey.ownerDenomDur l.owner c.1 (durKey l.duration)])

def lockRefKeys (l : Lock) : List IdxKey :=
  durationLockRefKeys l ++ [IdxKey.time l.endTime, IdxKey.ownerTime l.owner l.endTime] ++
  l.coins.flatMap (fun c => [IdxKey.denomTime c.1 l.endTime, IdxKey.ownerDenomTime l.owner c.1 l.endTime])

/-- the keys `addLockRefs` writes for a lock: duration keys only while not unlocking, all keys once
unlocking, under the matching prefix. -/
def indexKeys (l : Lock) : List RefKey :=
  (if l.isUnlocking then lockRefKeys l else durationLockRefKeys l).map (RefKey.mk l.isUnlocking)

/-- `addLockRefByKey`: fails when the entry exists. -/
def addRef (refs : List (RefKey × Nat)) (k : RefKey) (id : Nat) : Option (List (RefKey × Nat)) :=
  if (k, id) ∈ refs then none else some ((k, id) :: refs)

def addRefsL (refs : List (RefKey × Nat)) (ks : List RefKey) (id : Nat) : Option (List (RefKey × Nat)) :=
  ks.foldlM (fun r k => addRef r k id) refs

def delRefsL (refs : List (RefKey × Nat)) (ks : List RefKey) (id : Nat) : List (RefKey × Nat) :=
  refs.filter (fun p => !(p.2 = id && ks.contains p.1))

/-- `addLockRefs`. -/
def addLockRefs (s : State) (l : Lock) : Option State :=
  (addRefsL s.refs (indexKeys l) l.id).map fun r => { s with refs := r }

/-- `deleteLockRefs(prefix, lock)`: deletes every `lockRefKeys` entry under the given prefix. -/
def deleteLockRefs (s : State) (pfx : Bool) (l : Lock) : State :=
  { s with refs := delRefsL s.refs ((lockRefKeys l).map (RefKey.mk pfx)) l.id }

/-! ## accumulation store -/

def accIncrease (s : State) (dn : Denom) (k : Int) (a : Int) : State :=
  { s with accum := aadd s.accum (dn, k) a }

def accIncreaseCoins (s : State) (k : Int) (c : Coins) : State :=
  c.foldl (fun s c => accIncrease s c.1 k c.2) s

def accDecreaseCoins (s : State) (k : Int) (c : Coins) : State :=
  c.foldl (fun s c => accIncrease s c.1 k (-c.2)) s

def accSumGE : List ((Denom × Int) × Int) → Denom → Int → Int
  | [], _, _ => 0
  | ((dn', k), v) :: rest, dn, d => (if dn' = dn ∧ d ≤ k then v else 0) + accSumGE rest dn d

/-- `GetPeriodLocksAccumulation{Denom, Duration}` = `SubsetAccumulation(accumulationKey(d), nil)`.
`accumulationKey` is `uint64(d)`: a negative `d` wraps above every stored key. -/
def accumQuery (s : State) (dn : Denom) (d : Int) : Int :=
  if d < 0 then 0 else accSumGE s.accum dn d

/-! ## keeper -/

/-- `lock(ctx, lock, tokensToLock)`: store the lock, add the tokens to the accumulation store. -/
def lockInternal (s : State) (l : Lock) (tokens : Coins) : State :=
  accIncreaseCoins (setLock s l) l.duration tokens

/-- `CreateLockNoSend`: the coins are already in the module account. -/
def createLockNoSend (s1 : State) (owner : Addr) (coins : Coins) (duration : Int) : Option (State × Nat) := do
  let id := s1.lastLockId + 1
  let l : Lock := ⟨id, owner, duration, none, coins, ""⟩
  let s2 := lockInternal s1 l coins
  let s3 ← addLockRefs s2 l
  some ({ s3 with lastLockId := id }, id)

/-- `CreateLock`. -/
def createLock (s : State) (owner : Addr) (coins : Coins) (duration : Int) : Option (State × Nat) := do
  let s1 ← sendToModule s owner coins
  createLockNoSend s1 owner coins duration

/-- `AddTokensToLockByID` (no synthetic lock: the trailing `Increase` hits denom `""`, key 0). -/
def addTokensToLockByID (s : State) (id : Nat) (owner : Addr) (dn : Denom) (a : Int) : Option State := do
  let l ← getLock s id
  if l.owner ≠ owner then none else
  let l' := { l with coins := addCoin l.coins dn a }
  let s1 ← sendCoinToModule s owner dn a
  let s2 := lockInternal s1 l' [(dn, a)]
  some (accIncrease s2 "" 0 a)

/-- insertion sort (structural, so that closed histories evaluate in the kernel). -/
def insertBy {α : Type} (le : α → α → Bool) (a : α) : List α → List α
  | [] => [a]
  | b :: bs => if le a b then a :: b :: bs else b :: insertBy le a bs

def isortBy {α : Type} (le : α → α → Bool) : List α → List α
  | [] => []
  | a :: as => insertBy le a (isortBy le as)

def sortNat (l : List Nat) : List Nat := isortBy (fun a b => decide (a ≤ b)) l

/-- lock ids referenced by the index entries whose key satisfies `p`, ascending. -/
def idsWhere (s : State) (p : RefKey → Bool) : List Nat :=
  sortNat ((s.refs.filter (fun r => p r.1)).map (fun r => r.2))

/-- `GetAccountLockedDurationNotUnlockingOnly(owner, denom, duration)` (ids). -/
def qOwnerDenomDurationNotUnlocking (s : State) (o : Addr) (dn : Denom) (d : Int) : List Nat :=
  idsWhere s (fun k => k == ⟨false, IdxKey.ownerDenomDur o dn (durKey d)⟩)

/-- `MsgLockTokens` (ValidateBasic, then msg server `LockTokens`): adds to the first existing
not-unlocking lock of the same owner/denom/duration, else creates a lock. -/
def msgLockTokens (s : State) (owner : Addr) (coins : Coins) (duration : Int) : Option (State × Nat) :=
  if duration ≤ 0 then none else
  match coins with
  | [(dn, a)] =>
    if a ≤ 0 then none else
    match qOwnerDenomDurationNotUnlocking s owner dn duration with
    | id :: _ => (addTokensToLockByID s id owner dn a).map fun s' => (s', id)
    | [] => createLock s owner coins duration
  | _ => none

/-- `SplitLock`. -/
def splitLock (s : State) (l : Lock) (coins : Coins) (force : Bool) : Option (State × Lock) :=
  if !force && l.isUnlocking then none else
  match l.coins.sub coins with
  | none => none
  | some rest =>
    let s1 := setLock s { l with coins := rest }
    let id := s1.lastLockId + 1
    -- NewPeriodLock(id, owner, rewardReceiver, duration, endTime, coins)
    let nl : Lock := { id := id, owner := l.owner, duration := l.duration, endTime := l.endTime, coins := coins,
                       rewardReceiver := if l.owner = l.rewardReceiver then "" else l.rewardReceiver }
    some (setLock { s1 with lastLockId := id } nl, nl)

/-- tail of `beginUnlock`: drop the not-unlocking entries, set the end time, add the unlocking entries. -/
def beginUnlockCore (t : Int) (s : State) (l1 : Lock) : Option (State × Nat) :=
  let s2 := deleteLockRefs s false l1
  let l2 := { l1 with endTime := some (t + l1.duration) }
  let s3 := setLock s2 l2
  match addLockRefs s3 l2 with
  | none => none
  | some s4 => some (s4, l2.id)

/-- `beginUnlock`. -/
def beginUnlockInternal (t : Int) (s : State) (l : Lock) (coins : Coins) : Option (State × Nat) :=
  if !coins.isAllLTE l.coins then none else
  if l.isUnlocking then none else
  if !coins.isEmpty && coins ≠ l.coins then
    match splitLock s l coins false with
    | none => none
    | some (s1, l1) => beginUnlockCore t s1 l1
  else beginUnlockCore t s l

/-- `BeginUnlock(lockID, coins)`. -/
def beginUnlock (t : Int) (s : State) (id : Nat) (coins : Coins) : Option (State × Nat) := do
  let l ← getLock s id
  beginUnlockInternal t s l coins

/-- `MsgBeginUnlocking`. -/
def msgBeginUnlocking (t : Int) (s : State) (owner : Addr) (id : Nat) (coins : Coins) : Option (State × Nat) :=
  if id = 0 then none else
  if coins.length > 1 then none else
  if !coins.allPositive then none else
  match getLock s id with
  | none => none
  | some l => if l.owner ≠ owner then none else beginUnlock t s id coins

/-- `MsgBeginUnlockingAll` → `BeginUnlockAllNotUnlockings`: the account's not-unlocking locks are
collected first, then each is begun. -/
def msgBeginUnlockingAll (t : Int) (s : State) (owner : Addr) : Option State :=
  let ids := idsWhere s (fun k => match k with | ⟨false, IdxKey.ownerDur o _⟩ => o == owner | _ => false)
  ids.foldlM (fun s id => (beginUnlock t s id []).map (·.1)) s

/-- the loop of `unlockMaturedLockInternalLogic` over the lock's coins: CL shares are burned one by one. -/
def burnCLShares (s : State) (c : Coins) : Option State :=
  c.foldlM (fun s c => if isCLDenom c.1 then burnCoinFromModule s c.1 c.2 else some s) s

/-- `unlockMaturedLockInternalLogic`: CL shares are burned, everything else (`finalCoinsToSendBackToUser`) is sent
to the owner; the accumulation store is decreased by ALL of the lock's coins. -/
def unlockInternal (s : State) (l : Lock) : Option State := do
  let s0 ← burnCLShares s l.coins
  let back := l.coins.filter (fun c => !isCLDenom c.1)
  let s1 ← (if back.isEmpty then some s0 else sendFromModule s0 l.owner back)
  let s2 := deleteLock s1 l.id
  let s3 := deleteLockRefs s2 true l
  some (accDecreaseCoins s3 l.duration l.coins)

/-- `UnlockMaturedLock`. -/
def unlockMaturedLock (t : Int) (s : State) (id : Nat) : Option State := do
  let l ← getLock s id
  match l.endTime with
  | none => none
  | some e => if t < e then none else unlockInternal s l

def timeLE (e : Option Int) (t : Int) : Bool := match e with | none => true | some e => e ≤ t

/-- the index entries `LockIteratorBeforeTime(t)` walks: (end time, id) ascending. -/
def maturedEntries (t : Int) (s : State) : List (Option Int × Nat) :=
  isortBy (fun a b =>
        match a.1, b.1 with
        | none, none => decide (a.2 ≤ b.2)
        | none, some _ => true
        | some _, none => false
        | some x, some y => decide (x < y ∨ (x = y ∧ a.2 ≤ b.2)))
    (s.refs.filterMap (fun r => match r.1 with
      | ⟨true, IdxKey.time e⟩ => if timeLE e t then some (e, r.2) else none
      | _ => none))

/-- `WithdrawMaturedLocks(numToWithdraw)` (EndBlocker): a failing unlock panics. -/
def withdrawMaturedLocks (t : Int) (s : State) (num : Nat) : Option State :=
  let ids := (maturedEntries t s).map (·.2)
  let ids := if num > 0 then ids.take num else ids
  ids.foldlM (fun s id => unlockMaturedLock t s id) s

/-- `ExtendLockup` behind `MsgExtendLockup.ValidateBasic`. -/
def extendLockup (s : State) (id : Nat) (owner : Addr) (newDuration : Int) : Option State := do
  let l ← getLock s id
  if l.owner ≠ owner then none else
  if l.isUnlocking then none else
  let s1 := deleteLockRefs s l.isUnlocking l
  let (s2, l2) ← (if newDuration ≠ 0 then
      (if newDuration ≤ l.duration then none else
        let s' := l.coins.foldl (fun s c => accIncrease (accIncrease s c.1 l.duration (-c.2)) c.1 newDuration c.2) s1
        some (s', { l with duration := newDuration }))
    else some (s1, l))
  let s3 ← addLockRefs s2 l2
  some (setLock s3 l2)

def msgExtendLockup (s : State) (owner : Addr) (id : Nat) (duration : Int) : Option State :=
  if id = 0 then none else if duration ≤ 0 then none else extendLockup s id owner duration

/-- `SetLockRewardReceiverAddress`. -/
def setRewardReceiver (s : State) (id : Nat) (owner : Addr) (recv : Addr) : Option State := do
  let l ← getLock s id
  if l.owner ≠ owner then none else
  let recv := if l.owner = recv then "" else recv
  if l.rewardReceiver = recv then none else
  some (setLock s { l with rewardReceiver := recv })

/-- `ForceUnlock(lock)` without synthetic lock. -/
def forceUnlock (t : Int) (s : State) (l : Lock) : Option State := do
  let s1 ← (if !l.isUnlocking then (beginUnlock t s l.id []).map (·.1) else some s)
  let l' ← getLock s1 l.id
  unlockInternal s1 l'

/-- `MsgForceUnlock` → `PartialForceUnlock`. -/
def msgForceUnlock (t : Int) (s : State) (owner : Addr) (id : Nat) (coins : Coins) : Option State :=
  if id = 0 then none else
  if !coins.valid then none else
  match getLock s id with
  | none => none
  | some l =>
    if l.owner ≠ owner then none else
    if !s.forceAllowed.contains owner then none else
    if !coins.isAllLTE l.coins then none else
    if !coins.isEmpty && coins ≠ l.coins then
      match splitLock s l coins true with
      | none => none
      | some (s1, nl) => forceUnlock t s1 nl
    else forceUnlock t s l

/-- `ConcentratedLiquidityKeeper.CreateFullRangePositionLocked` / `…Unlocking` as far as x/lockup is concerned
(`mintSharesAndLock`): `shares` of the pool's share denomination are minted into the lockup module account and
locked with `CreateLockNoSend`; the `…Unlocking` variant then calls `BeginForceUnlock(lockID, shares)`.
Callers' contract: the denomination is a CL share denomination, the amount (the position's liquidity, truncated) and
the duration are positive. -/
def clLock (t : Int) (s : State) (owner : Addr) (dn : Denom) (shares : Int) (duration : Int) (unlocking : Bool) :
    Option (State × Nat) :=
  if !isCLDenom dn then none else
  if duration ≤ 0 then none else
  (mintCoinToModule s dn shares).bind fun s1 =>
  (createLockNoSend s1 owner [(dn, shares)] duration).bind fun p =>
  if unlocking then beginUnlock t p.1 p.2 [(dn, shares)] else some p

/-! ## histories -/

inductive Op where
  | lockTokens (owner : Addr) (coins : Coins) (duration : Int)
  /-- keeper `AddTokensToLockByID` under its callers' contract: the coin has the lock's denomination
  (the only in-tree caller, `AddToExistingLock`, found the lock through the owner×denom×duration index). -/
  | addToLock (id : Nat) (owner : Addr) (dn : Denom) (a : Int)
  | extend (owner : Addr) (id : Nat) (duration : Int)
  | beginUnlock (owner : Addr) (id : Nat) (coins : Coins)
  | beginUnlockAll (owner : Addr)
  | unlockMatured (id : Nat)
  | withdrawMatured (num : Nat)
  | setRewardReceiver (owner : Addr) (id : Nat) (recv : Addr)
  | forceUnlock (owner : Addr) (id : Nat) (coins : Coins)
  /-- the CL keeper locks freshly minted shares of a full-range position (see `clLock`). -/
  | clLock (owner : Addr) (dn : Denom) (shares : Int) (duration : Int) (unlocking : Bool)
  deriving Repr

/-- the caller contract of `Op.addToLock`. -/
def addToLockGuarded (s : State) (id : Nat) (owner : Addr) (dn : Denom) (a : Int) : Option State :=
  match getLock s id with
  | none => none
  | some l => if l.coins.map (·.1) ≠ [dn] then none else addTokensToLockByID s id owner dn a

/-- one transaction at block time `t`; `none` = error, nothing written.  The `Nat` is the lock id a
message returns (0 when it returns none). -/
def applyOp (t : Int) (s : State) : Op → Option (State × Nat)
  | .lockTokens o c d => msgLockTokens s o c d
  | .addToLock id o dn a => (addToLockGuarded s id o dn a).map (·, 0)
  | .extend o id d => (msgExtendLockup s o id d).map (·, 0)
  | .beginUnlock o id c => msgBeginUnlocking t s o id c
  | .beginUnlockAll o => (msgBeginUnlockingAll t s o).map (·, 0)
  | .unlockMatured id => (unlockMaturedLock t s id).map (·, 0)
  | .withdrawMatured n => (withdrawMaturedLocks t s n).map (·, 0)
  | .setRewardReceiver o id r => (setRewardReceiver s id o r).map (·, 0)
  | .forceUnlock o id c => (msgForceUnlock t s o id c).map (·, 0)
  | .clLock o dn a d u => clLock t s o dn a d u

def step (t : Int) (s : State) (op : Op) : State × Option Nat :=
  match applyOp t s op with
  | none => (s, none)
  | some (s', r) => (s', some r)

/-- a history: block time and operation per transaction. -/
def run (s : State) : List (Int × Op) → State
  | [] => s
  | (t, op) :: rest => run (step t s op).1 rest

/-- genesis: funded accounts, nothing locked. -/
def initState (bal : List ((Addr × Denom) × Int)) (forceAllowed : List Addr) : State :=
  { bal := bal, forceAllowed := forceAllowed }

/-! ## queries (store.go) — sorted lock ids -/

def bothFlags (s : State) (p : IdxKey → Bool) : List Nat := idsWhere s (fun k => p k.key)
def flagOnly (s : State) (u : Bool) (p : IdxKey → Bool) : List Nat := idsWhere s (fun k => k.unlocking == u && p k.key)

/-- `GetPeriodLocks`. -/
def qAll (s : State) : List Nat := bothFlags s (fun k => match k with | .dur _ => true | _ => false)
/-- `GetAccountPeriodLocks`. -/
def qOwner (s : State) (o : Addr) : List Nat :=
  bothFlags s (fun k => match k with | .ownerDur o' _ => o' == o | _ => false)
/-- `GetAccountLockedLongerDuration` / `…NotUnlockingOnly`. -/
def qOwnerLonger (s : State) (o : Addr) (d : Int) (notUnlockingOnly : Bool) : List Nat :=
  let p : IdxKey → Bool := fun k => match k with | .ownerDur o' k => o' == o && decide (durKey d ≤ k) | _ => false
  if notUnlockingOnly then flagOnly s false p else bothFlags s p
/-- `GetAccountLockedDuration`. -/
def qOwnerDuration (s : State) (o : Addr) (d : Int) : List Nat :=
  bothFlags s (fun k => k == .ownerDur o (durKey d))
/-- `GetAccountLockedLongerDurationDenom` / `…NotUnlockingOnly`. -/
def qOwnerDenomLonger (s : State) (o : Addr) (dn : Denom) (d : Int) (notUnlockingOnly : Bool) : List Nat :=
  let p : IdxKey → Bool := fun k => match k with
    | .ownerDenomDur o' dn' k => o' == o && dn' == dn && decide (durKey d ≤ k) | _ => false
  if notUnlockingOnly then flagOnly s false p else bothFlags s p
/-- `GetLocksLongerThanDurationDenom` (`GetLocksDenom` at duration 0). -/
def qDenomLonger (s : State) (dn : Denom) (d : Int) : List Nat :=
  bothFlags s (fun k => match k with | .denomDur dn' k => dn' == dn && decide (durKey d ≤ k) | _ => false)

def timeGT (e : Option Int) (t : Int) : Bool := match e with | none => false | some e => t < e

/-- `LockIteratorBeforeTime(t)` (what `WithdrawMaturedLocks` walks). -/
def qUnlockingBefore (s : State) (t : Int) : List Nat :=
  flagOnly s true (fun k => match k with | .time e => timeLE e t | _ => false)
/-- `LockIteratorAfterTime(t)`. -/
def qUnlockingAfter (s : State) (t : Int) : List Nat :=
  flagOnly s true (fun k => match k with | .time e => timeGT e t | _ => false)

/-- `duration := 0; if ts.After(now) { duration = ts - now }`. -/
def pastDur (now ts : Int) : Int := if now < ts then ts - now else 0

/-- `GetAccountLockedPastTime(addr, ts)` at block time `now`. -/
def qOwnerPastTime (s : State) (now : Int) (o : Addr) (ts : Int) : List Nat :=
  sortNat (flagOnly s true (fun k => match k with | .ownerTime o' e => o' == o && timeGT e ts | _ => false) ++
    qOwnerLonger s o (pastDur now ts) true)
/-- `GetAccountUnlockedBeforeTime(addr, ts)` at block time `now`. -/
def qOwnerUnlockedBefore (s : State) (now : Int) (o : Addr) (ts : Int) : List Nat :=
  let unl := flagOnly s true (fun k => match k with | .ownerTime o' e => o' == o && timeLE e ts | _ => false)
  if ts < now then unl else
  sortNat (unl ++ flagOnly s false (fun k => match k with
    | .ownerDur o' k => o' == o && decide (k < durKey (ts - now)) | _ => false))
/-- `GetAccountLockedPastTimeDenom`. -/
def qOwnerDenomPastTime (s : State) (now : Int) (o : Addr) (dn : Denom) (ts : Int) : List Nat :=
  sortNat (flagOnly s true (fun k => match k with
      | .ownerDenomTime o' dn' e => o' == o && dn' == dn && timeGT e ts | _ => false) ++
    qOwnerDenomLonger s o dn (pastDur now ts) true)
/-- `GetLocksPastTimeDenom`. -/
def qDenomPastTime (s : State) (now : Int) (dn : Denom) (ts : Int) : List Nat :=
  sortNat (flagOnly s true (fun k => match k with
      | .denomTime dn' e => dn' == dn && timeGT e ts | _ => false) ++
    flagOnly s false (fun k => match k with
      | .denomDur dn' k => dn' == dn && decide (durKey (pastDur now ts) ≤ k) | _ => false))

end OsmoVerif.Lockup
