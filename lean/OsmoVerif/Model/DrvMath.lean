/- line-protocol dispatch for the `math` and `tick` engines -/
import OsmoVerif.Model.Tick
import OsmoVerif.Model.DrvNum
namespace OsmoVerif.MathM
open OsmoVerif.Num

def ints (args : List String) : Option (List Int) := args.mapM String.toInt?

def optDec (s : String) : Option (Option Int) := if s = "nil" then some none else s.toInt?.map some

/-- test function family for the binary searches: `lin a b` ↦ a·x+b, `sq a b` ↦ a·x²+b,
`cub a b` ↦ a·x³+b, `errAbove a b` ↦ x (fails when x > a).  Integer arithmetic on sdk Ints
(overflow beyond 256 bits = error). -/
def fInt (kind : String) (a b : Int) (x : Int) : Option Int :=
  match kind with
  | "lin" => chkInt (a * x + b)
  | "sq" => chkInt (a * x * x + b)
  | "cub" => chkInt (a * x * x * x + b)
  | "errAbove" => if x > a then none else some x
  | _ => none

/-- BigDec family: `lin a b` ↦ a·x (half-even) + b, `sq` ↦ x·x + b. -/
def fBig (kind : String) (a b : Int) (x : Int) : Option Int :=
  match kind with
  | "lin" => (BigDec.mul a x).bind (BigDec.add b)
  | "sq" => (BigDec.mul x x).bind (BigDec.add b)
  | _ => none

def showSearch : SearchRes → String
  | .found x => s!"ok {x}"
  | .noConverge => "noconv"
  | .fail => "panic"

def stepMath (op : String) (args : List String) : String :=
  match op, args with
  | "sqrt", [d] => un monotonicSqrt [d]
  | "sqrtBig", [d] => un monotonicSqrtBigDec [d]
  | "exp2", [x] => un exp2 [x]
  | "log2", [x] => un logBase2 [x]
  | "ln", [x] => un ln [x]
  | "tickLog", [x] => un tickLog [x]
  | "customLog", [x, b] => bin customBaseLog [x, b]
  | "sigfig", [d, t] => bin sigFigRound [d, t]
  | "pow", [b, e] => bin pow [b, e]
  | "powApprox", [b, e, p] => match ints [b, e, p] with
    | some [b, e, p] => showOpt (powApprox b e p)
    | _ => "bad-op"
  | "decPower", [b, n] => binNat decPower [b, n]
  | "approxSqrt", [d] => un approxSqrt [d]
  | "bsearch", [kind, a, b, lo, hi, target, add, mult, dir, iters] =>
    match ints [a, b, lo, hi, target], optDec add, optDec mult, dir.toNat?, iters.toNat? with
    | some [a, b, lo, hi, target], some add, some mult, some dir, some iters =>
      showSearch (binarySearch (fInt kind a b) ⟨add, mult, dir⟩ target iters lo hi)
    | _, _, _, _, _ => "bad-op"
  | "bsearchBig", [kind, a, b, lo, hi, target, add, mult, dir, iters] =>
    match ints [a, b, lo, hi, target], optDec add, optDec mult, dir.toNat?, iters.toNat? with
    | some [a, b, lo, hi, target], some add, some mult, some dir, some iters =>
      showSearch (binarySearchBigDec (fBig kind a b) ⟨add, mult, dir⟩ target iters lo hi)
    | _, _, _, _, _ => "bad-op"
  | "compare", [e, a, add, mult, dir] =>
    match ints [e, a], optDec add, optDec mult, dir.toNat? with
    | some [e, a], some add, some mult, some dir => showOpt (ErrTol.compare ⟨add, mult, dir⟩ e a)
    | _, _, _, _ => "bad-op"
  | "compareBig", [e, a, add, mult, dir] =>
    match ints [e, a], optDec add, optDec mult, dir.toNat? with
    | some [e, a], some add, some mult, some dir => showOpt (ErrTol.compareBigDec ⟨add, mult, dir⟩ e a)
    | _, _, _, _ => "bad-op"
  | _, _ => "bad-op"

end OsmoVerif.MathM

namespace OsmoVerif.Tick
open OsmoVerif.Num

def stepTick (op : String) (args : List String) : String :=
  match op with
  | "t2p" => un tickToPrice args
  | "t2sp" => un tickToSqrtPrice args
  | "p2t" => un calculatePriceToTick args
  | "sp2t" => un calculateSqrtPriceToTick args
  | "round" => bin roundDownTickToSpacing args
  | "sp2tround" => bin sqrtPriceToTickRoundDownSpacing args
  | _ => "bad-op"

end OsmoVerif.Tick
