/-
Model of osmomath's approximate / iterative math: monotone square roots, Exp2 (13-parameter
rational approximation), LogBase2 and derived logarithms, SigFigRound.  Raw `Int` values,
`none` = Go panic / error.  Core only.
-/
import OsmoVerif.Model.Num

namespace OsmoVerif.MathM
open OsmoVerif.Num OsmoVerif.Gen

/-! ### monotone square roots (osmomath/sqrt.go) -/

/-- `MonotonicSqrt` on a raw value with scale `S` (10^18 for Dec, 10^36 for BigDec):
`r = isqrt(d·S)`, plus one iff `r² < d·S`; negative input is an error. -/
def monotonicSqrtRaw (S : Nat) (d : Int) : Option Int :=
  if d < 0 then none else
    let v : Nat := d.toNat * S
    let r := Nat.sqrt v
    some (if r * r < v then (r + 1 : Nat) else r)

def monotonicSqrt (d : Int) : Option Int := monotonicSqrtRaw (10 ^ Osmomath.DecPrecision) d
def monotonicSqrtBigDec (d : Int) : Option Int := monotonicSqrtRaw (10 ^ Osmomath.BigDecPrecision) d

/-! ### Exp2 (osmomath/exp2.go) -/

/-- one Horner-free step of `exp2ChebyshevRationalApprox`: `x_exp_i.MulMut(x)`, then
`h += num[i]·x_exp_i`, `p += den[i]·x_exp_i` (every product half-even at 36 decimals). -/
def exp2Loop (x : Int) : List Int → List Int → Int → Int → Int → Option (Int × Int)
  | n :: ns, d :: ds, xe, h, p => do
    let xe' ← BigDec.mul xe x
    let h' ← (BigDec.mul n xe').bind (BigDec.add h)
    let p' ← (BigDec.mul d xe').bind (BigDec.add p)
    exp2Loop x ns ds xe' h' p'
  | [], [], _, h, p => some (h, p)
  | _, _, _, _, _ => none

def exp2Rational (x : Int) : Option Int :=
  if x < 0 ∨ x > P36 then none
  else if x = 0 then some P36
  else if x = P36 then some (2 * P36)
  else match Osmomath.exp2Num, Osmomath.exp2Den with
    | n0 :: ns, d0 :: ds => do
      let (h, p) ← exp2Loop x ns ds P36 n0 d0
      BigDec.quo h p
    | _, _ => none

def exp2 (e : Int) : Option Int :=
  if e < 0 then none
  else if e > Osmomath.maxSupportedExponent then none
  else do
    let ip := e.tdiv P36          -- TruncateDec / TruncateInt
    let frac ← BigDec.sub e (ip * P36)
    let fr ← exp2Rational frac
    some (fr * 2 ^ ip.toNat)       -- big.Int.Lsh, no bit-length check

/-! ### LogBase2 (osmomath/decimal.go) -/

def log2NormUp : Nat → Int → Int → Option (Int × Int)
  | 0, _, _ => none
  | f + 1, x, y => if x < P36 then (BigDec.add y (-P36)).bind (log2NormUp f (x * 2)) else some (x, y)

def log2NormDown : Nat → Int → Int → Option (Int × Int)
  | 0, _, _ => none
  | f + 1, x, y => if x ≥ 2 * P36 then (BigDec.add y P36).bind (log2NormDown f (x / 2)) else some (x, y)

def log2Iter : Nat → Int → Int → Int → Option Int
  | 0, _, y, _ => some y
  | f + 1, x, y, b => do
    let x2 ← BigDec.mul x x
    if x2 ≥ 2 * P36 then do
      let y' ← BigDec.add y b
      log2Iter f (x2 / 2) y' (b / 2)
    else log2Iter f x2 y (b / 2)

/-- `oneHalfBigDec = oneBigDec.Quo(twoBigDec)`. -/
def oneHalf36 : Int := P36 / 2

def logBase2 (x : Int) : Option Int :=
  if x ≤ 0 then none else do
    let (x1, y1) ← log2NormUp 2000 x 0
    let (x2, y2) ← log2NormDown 2000 x1 y1
    log2Iter Osmomath.maxLog2Iterations x2 y2 oneHalf36

def ln (x : Int) : Option Int := (logBase2 x).bind fun l => BigDec.quo l Osmomath.logOfEbase2
def tickLog (x : Int) : Option Int := (logBase2 x).bind fun l => BigDec.quo l Osmomath.tickLogOf2
def customBaseLog (x base : Int) : Option Int :=
  if base ≤ 0 ∨ base = P36 then none else do
    let a ← logBase2 x
    let b ← logBase2 base
    BigDec.quo a b

/-! ### SigFigRound (osmomath/sigfig_round.go; LegacyDec arithmetic) -/

def sigFigScale : Nat → Int → Nat → Option (Int × Nat)
  | 0, _, _ => none
  | f + 1, d, k => if d < Osmomath.pointOne then (Dec.mulInt d 10).bind fun d' => sigFigScale f d' (k + 1) else some (d, k)

/-- `SigFigRound(d, tenToSigFig)`; `tenToSigFig` an sdk Int. -/
def sigFigRound (d : Int) (tenToSigFig : Int) : Option Int :=
  if d = 0 then some d else do
    let (dk, k) ← sigFigScale 400 d 0
    let dkSig ← Dec.mulInt dk tenToSigFig
    let num ← Dec.roundInt dkSig          -- sdk Int (≤ 256 bits)
    let tenToK ← chkDec ((10 : Int) ^ k * P18)   -- NewInt(10).ToLegacyDec().Power(k): exact, range-checked
    let tk ← Dec.truncateInt tenToK
    let den ← chkInt (tenToSigFig * tk)
    if den = 0 then none else some ((num * P18).tdiv den)

/-! ### LegacyDec.Power / ApproxSqrt (cosmossdk.io/math) and Pow / PowApprox (osmomath/math.go) -/

def decPowLoop : Nat → Nat → Int → Int → Option (Int × Int)
  | 0, _, d, tmp => some (d, tmp)
  | fuel + 1, i, d, tmp =>
    if i > 1 then do
      let tmp' ← if i % 2 ≠ 0 then Dec.mul tmp d else pure tmp
      let d' ← Dec.mul d d
      decPowLoop fuel (i / 2) d' tmp'
    else some (d, tmp)

/-- `LegacyDec.Power(n)`. -/
def decPower (d : Int) (n : Nat) : Option Int :=
  if n = 0 then some P18 else do
    let (d', tmp) ← decPowLoop 64 n d P18
    Dec.mul d' tmp

/-- Newton iteration of `ApproxRoot(2)` for a non-negative, non-{0,1} input. A panic inside is
recovered by the SDK into an error: `none`. -/
def approxSqrtLoop (d : Int) : Nat → Int → Option Int
  | 0, guess => some guess
  | f + 1, guess => do
    let prev0 ← decPower guess 1
    let prev := if prev0 = 0 then 1 else prev0
    let q ← Dec.quo d prev
    let dl ← Dec.sub q guess
    let delta := dl.tdiv 2
    let guess' ← Dec.add guess delta
    if delta.natAbs ≤ 1 then some guess' else approxSqrtLoop d f guess'

def approxSqrt (d : Int) : Option Int :=
  if d < 0 then none   -- not used on negatives by Pow (base > 0)
  else if d = 0 ∨ d = P18 then some d
  else approxSqrtLoop d 300 P18

/-- `AbsDifferenceWithSign(a, b)`. -/
def absDiffSign (a b : Int) : Option (Int × Bool) :=
  if a ≥ b then (Dec.sub a b).map (·, false) else (Dec.add (-a) b).map (·, true)

def powApproxLoop (x : Int) (xneg : Bool) (exp precision : Int) :
    Nat → Int → Int → Int → Bool → Int → Option Int
  | 0, _, _, _, _, _ => none
  | f + 1, i, term, sum, negative, bigK =>
    if term ≥ precision then do
      let (c, cneg) ← absDiffSign exp bigK
      let bigK' := i * P18
      let t1 ← Dec.mul term c
      let t2 ← Dec.mul t1 x
      let term' ← Dec.quo t2 bigK'
      if term' = 0 then some sum else
      let neg1 := if xneg then !negative else negative
      let neg2 := if cneg then !neg1 else neg1
      let sum' ← if neg2 then Dec.sub sum term' else Dec.add sum term'
      if i = Osmomath.powIterationLimit then none
      else powApproxLoop x xneg exp precision f (i + 1) term' sum' neg2 bigK'
    else some sum

def powApprox (base exp precision : Int) : Option Int :=
  if base ≤ 0 then none
  else if exp = 0 then some P18
  else if exp = Osmomath.one_half then approxSqrt base
  else do
    let (x, xneg) ← absDiffSign base P18
    powApproxLoop x xneg exp precision (Osmomath.powIterationLimit + 2) 1 P18 P18 false 0

def pow (base exp : Int) : Option Int :=
  if base ≤ 0 then none
  else if base ≥ 2 * P18 then none
  else do
    let ip := exp.tdiv P18
    let frac ← Dec.sub exp (ip * P18)
    -- uint64(integer.TruncateInt64()): a negative exponent wraps to a huge power (overflow panic or
    -- underflow to 0); the callers never pass one and the engine does not generate it.
    if ip < 0 then none else
    let integerPow ← decPower base ip.toNat
    if frac = 0 then some integerPow else do
      let fp ← powApprox base frac Osmomath.powPrecision
      Dec.mul integerPow fp

/-! ### ErrTolerance and binary searches (osmomath/binary_search.go) -/

structure ErrTol where
  additive : Option Int        -- raw Dec; `none` = nil
  multiplicative : Option Int  -- raw Dec; `none` = nil
  dir : Nat                    -- 0 unconstrained, 1 up, 2 down, 3 bankers

/-- `ErrTolerance.Compare(expected, actual)` on sdk Ints. -/
def ErrTol.compare (e : ErrTol) (expected actual : Int) : Option Int := do
  let diff ← (Dec.sub (expected * P18) (actual * P18)).map fun d => (d.natAbs : Int)
  let sign : Int := if expected > actual then 1 else -1
  if e.dir = 2 ∧ expected < actual then some (-1)
  else if e.dir = 1 ∧ expected > actual then some 1
  else
    let addRes : Option (Option Int) := match e.additive with
      | none => some none
      | some a => if a = 0 ∧ expected = actual then some (some 0) else if diff > a then some (some sign) else some none
    match addRes with
    | none => none
    | some (some r) => some r
    | some none =>
      match e.multiplicative with
      | none => some 0
      | some m =>
        if m = 0 then some 0 else
        let mn : Int := min expected.natAbs actual.natAbs
        if mn = 0 then some sign else do
          let errTerm ← Dec.quo diff (mn * P18)
          if errTerm > m then some sign else some 0

/-- `ErrTolerance.CompareBigDec`. -/
def ErrTol.compareBigDec (e : ErrTol) (expected actual : Int) : Option Int :=
  if e.dir = 2 ∧ expected < actual then some (-1)
  else if e.dir = 1 ∧ expected > actual then some 1
  else do
    let diff ← (BigDec.sub expected actual).map fun d => (d.natAbs : Int)
    let sign : Int := if expected > actual then 1 else if expected < actual then -1 else 0
    let addRes : Option Int := match e.additive with
      | none => none
      | some a => if a = 0 ∧ expected = actual then some 0 else if diff > a * Pdiff then some sign else none
    match addRes with
    | some r => some r
    | none =>
      match e.multiplicative with
      | none => some 0
      | some m =>
        if m = 0 then some 0 else
        let mn : Int := min expected.natAbs actual.natAbs
        if mn = 0 then some sign else do
          let errTerm ← BigDec.quo diff mn
          if errTerm > m * Pdiff then some sign else some 0

inductive SearchRes where
  | found (x : Int)
  | noConverge
  | fail            -- f returned an error / something panicked
  deriving Repr, DecidableEq

/-- `BinarySearch` over sdk Ints; `f` may fail. -/
def binarySearch (f : Int → Option Int) (tol : ErrTol) (target : Int) : Nat → Int → Int → SearchRes
  | 0, _, _ => .noConverge
  | it + 1, lo, hi =>
    match chkInt (lo + hi) with
    | none => .fail
    | some s =>
      let est := s.tdiv 2
      match f est with
      | none => .fail
      | some out =>
        match tol.compare target out with
        | none => .fail
        | some c =>
          if c < 0 then binarySearch f tol target it lo est
          else if c > 0 then binarySearch f tol target it est hi
          else .found est

/-- `BinarySearchBigDec`; midpoint by arithmetic right shift (floor). -/
def binarySearchBigDec (f : Int → Option Int) (tol : ErrTol) (target : Int) : Nat → Int → Int → SearchRes
  | 0, _, _ => .noConverge
  | it + 1, lo, hi =>
    match BigDec.add lo hi with
    | none => .fail
    | some s =>
      let est := s / 2
      match f est with
      | none => .fail
      | some out =>
        match tol.compareBigDec target out with
        | none => .fail
        | some c =>
          if c < 0 then binarySearchBigDec f tol target it lo est
          else if c > 0 then binarySearchBigDec f tol target it est hi
          else .found est

end OsmoVerif.MathM
