/- line protocol for the `router` (app) engine.

The pool modules are DATA: every op line carries the per-hop answers of the real pools in a trace.  The
`Pools` record is instantiated over `Trace`: executed swaps consume the `ex` entries in order, estimates look
their answer up in `est` (keyed by the number of swaps executed so far = the state the estimate ran on).  The
router model recomputes every router-level quantity (taker fees, what is fed into the next hop, which hop is
compared with the limit, leg sums, the sender's and the fee collector's ledger); if it asks a pool for
anything the real router did not ask, the lookup misses and the result differs (`err miss`).

  router reset <defaultFee>
  router setdefault <fee> | setfee <dIn> <dOut> <fee> | fee <dIn> <dOut> | wl <addr,addr|->
  router exportimport                    -> ok | panic   (poolmanager ExportGenesis -> InitGenesis, fee configuration part)
  router in  <sender> <dIn> <amount> <minOut> <steps> <ex>
  router out <sender> <dOut> <amount> <maxIn> <steps> <est> <ex>
  router estin <applyFee 0|1> <dIn> <amount> <steps> <est>
  router estout <dOut> <amount> <steps> <est>
  router splitin  <sender> <dIn> <minOut> <ex> (<amount> <steps>)+
  router splitout <sender> <dOut> <maxIn> <est> <ex> (<amount> <steps>)+
steps = pool:denom,…   ex = pool:dIn:dOut:arg:(e | out:taken | in:delivered),…   est = at:pool:dIn:dOut:arg:(e|res),…
-/
import OsmoVerif.Model.Router
import OsmoVerif.Model.PoolManagerGenesis
namespace OsmoVerif.Router

structure Entry where
  tm : Nat
  pool : Nat
  dIn : Denom
  dOut : Denom
  arg : Int
  res : Option (Int × Int)
  deriving Repr

structure Trace where
  ex : List Entry := []
  est : List Entry := []
  done : Nat := 0
  deriving Repr

def findEst (tm pool : Nat) (dIn dOut : Denom) (arg : Int) : List Entry → Option (Option (Int × Int))
  | [] => none
  | e :: r => if e.tm = tm ∧ e.pool = pool ∧ e.dIn = dIn ∧ e.dOut = dOut ∧ e.arg = arg then some e.res
              else findEst tm pool dIn dOut arg r

def nextEx (t : Trace) (pool : Nat) (dIn dOut : Denom) (arg : Int) : Except Err ((Int × Int) × Trace) :=
  match t.ex with
  | [] => .error .miss
  | e :: r =>
    if e.pool = pool ∧ e.dIn = dIn ∧ e.dOut = dOut ∧ e.arg = arg then
      match e.res with
      | none => .error .pool
      | some v => .ok (v, { t with ex := r, done := t.done + 1 })
    else .error .miss

def lookupEst (t : Trace) (pool : Nat) (dIn dOut : Denom) (arg : Int) : Except Err Int :=
  match findEst t.done pool dIn dOut arg t.est with
  | none => .error .miss
  | some none => .error .pool
  | some (some v) => .ok v.1

/-- the real pools of this op line, as data. -/
def tracePools : Pools Trace where
  swapIn := fun pool _ dIn dOut x t => nextEx t pool dIn dOut x
  swapOut := fun pool _ dIn dOut x t => nextEx t pool dIn dOut x
  calcOut := fun pool dIn dOut x t => lookupEst t pool dIn dOut x
  calcIn := fun pool dIn dOut x t => lookupEst t pool dIn dOut x
  sendFee := fun _ _ _ t => .ok t

/-! parsing -/

def parseList {α : Type} (f : List String → Option α) (s : String) : Option (List α) :=
  if s = "-" then some [] else (s.splitOn ",").mapM (fun x => f (x.splitOn ":"))

def parseStepIn : List String → Option StepIn
  | [p, d] => p.toNat?.map (fun p => ⟨p, d⟩)
  | _ => none

def parseStepOut : List String → Option StepOut
  | [p, d] => p.toNat?.map (fun p => ⟨p, d⟩)
  | _ => none

def parseEx : List String → Option Entry
  | [p, dIn, dOut, arg, "e"] => do some ⟨0, ← p.toNat?, dIn, dOut, ← arg.toInt?, none⟩
  | [p, dIn, dOut, arg, x, dl] => do some ⟨0, ← p.toNat?, dIn, dOut, ← arg.toInt?, some (← x.toInt?, ← dl.toInt?)⟩
  | _ => none

def parseEst : List String → Option Entry
  | [tm, p, dIn, dOut, arg, "e"] => do some ⟨← tm.toNat?, ← p.toNat?, dIn, dOut, ← arg.toInt?, none⟩
  | [tm, p, dIn, dOut, arg, y] => do some ⟨← tm.toNat?, ← p.toNat?, dIn, dOut, ← arg.toInt?, some (← y.toInt?, 0)⟩
  | _ => none

def parseLegsIn : List String → Option (List LegIn)
  | [] => some []
  | amt :: steps :: rest => do
    let a ← amt.toInt?
    let r ← parseList parseStepIn steps
    let ls ← parseLegsIn rest
    some (⟨r, a⟩ :: ls)
  | _ => none

def parseLegsOut : List String → Option (List LegOut)
  | [] => some []
  | amt :: steps :: rest => do
    let a ← amt.toInt?
    let r ← parseList parseStepOut steps
    let ls ← parseLegsOut rest
    some (⟨r, a⟩ :: ls)
  | _ => none

/-! the ledger the hops imply -/

def addTo (d : Denom) (v : Int) : List (Denom × Int) → List (Denom × Int)
  | [] => [(d, v)]
  | (d', v') :: r => if d' = d then (d', v' + v) :: r else if d < d' then (d, v) :: (d', v') :: r else (d', v') :: addTo d v r

def showLedger (l : List (Denom × Int)) : String :=
  let nz := l.filter (fun p => p.2 ≠ 0)
  if nz.isEmpty then "-" else ",".intercalate (nz.map fun p => s!"{p.1}:{p.2}")

def feesOf (recs : List HopRec) : List (Denom × Int) :=
  recs.foldl (fun l r => addTo r.dIn r.fee l) []

def netOf (recs : List HopRec) : List (Denom × Int) :=
  recs.foldl (fun l r => addTo r.dOut r.amtOut (addTo r.dIn (-(r.amtIn + r.fee)) l)) []

def hopsOf (recs : List HopRec) : String :=
  if recs.isEmpty then "-" else ",".intercalate (recs.map fun r => s!"{r.pool}:{r.amtIn}:{r.amtOut}")

def showRes (r : Except Err ((Int × List HopRec) × Trace)) : String :=
  match r with
  | .ok ((a, recs), t) =>
    if t.ex.isEmpty then s!"ok {a} fees={showLedger (feesOf recs)} net={showLedger (netOf recs)} hops={hopsOf recs}"
    else "err unused-trace"
  | .error .limit => "err limit"
  | .error .miss => "err miss"
  | .error _ => "err other"

def showEst (r : Except Err Int) : String :=
  match r with
  | .ok a => s!"ok {a}"
  | .error .miss => "err miss"
  | .error _ => "err"

def initRouter : FeeCfg := ⟨0, [], []⟩

def stepRouter (c : FeeCfg) (op : String) (args : List String) : FeeCfg × String :=
  match op, args with
  | "reset", [d] =>
    match d.toInt? with
    | some d => (⟨d, [], []⟩, "ok")
    | none => (c, "bad-op")
  | "setdefault", [d] =>
    match d.toInt? with
    | some d => ({ c with default := d }, "ok")
    | none => (c, "bad-op")
  | "setfee", [d0, d1, f] =>
    match f.toInt? with
    | some f => (setDenomPairTakerFee c d0 d1 f, "ok")
    | none => (c, "bad-op")
  | "fee", [d0, d1] => (c, s!"ok {getTradingPairTakerFee c d0 d1}")
  | "wl", [l] => ({ c with whitelist := if l = "-" then [] else l.splitOn "," }, "ok")
  -- C19: x/poolmanager ExportGenesis -> store wiped -> InitGenesis (Model/PoolManagerGenesis) as far as this engine's state (the
  -- taker-fee configuration) goes: an override equal to the default taker fee is dropped; `panic` = InitGenesis rejects the params
  | "exportimport", [] =>
    match pmExportImport { cfg := c } with
    | some t => (t.cfg, "ok")
    | none => (c, "panic")
  | "in", [sender, dIn, amt, minOut, steps, ex] =>
    match amt.toInt?, minOut.toInt?, parseList parseStepIn steps, parseList parseEx ex with
    | some amt, some minOut, some steps, some ex =>
      (c, showRes (routeExactAmountIn tracePools c sender steps dIn amt minOut { ex := ex }))
    | _, _, _, _ => (c, "bad-op")
  | "out", [sender, dOut, amt, maxIn, steps, est, ex] =>
    match amt.toInt?, maxIn.toInt?, parseList parseStepOut steps, parseList parseEst est, parseList parseEx ex with
    | some amt, some maxIn, some steps, some est, some ex =>
      (c, showRes (routeExactAmountOut tracePools c sender steps maxIn dOut amt { ex := ex, est := est }))
    | _, _, _, _, _ => (c, "bad-op")
  | "estin", [applyFee, dIn, amt, steps, est] =>
    match amt.toInt?, parseList parseStepIn steps, parseList parseEst est with
    | some amt, some steps, some est =>
      (c, showEst (multihopEstimateOutGivenExactAmountIn tracePools c (applyFee = "1") steps dIn amt { est := est }))
    | _, _, _ => (c, "bad-op")
  | "estout", [dOut, amt, steps, est] =>
    match amt.toInt?, parseList parseStepOut steps, parseList parseEst est with
    | some amt, some steps, some est =>
      (c, showEst (multihopEstimateInGivenExactAmountOut tracePools c steps dOut amt { est := est }))
    | _, _, _ => (c, "bad-op")
  | "splitin", sender :: dIn :: minOut :: ex :: legs =>
    match minOut.toInt?, parseList parseEx ex, parseLegsIn legs with
    | some minOut, some ex, some legs =>
      (c, showRes (splitRouteExactAmountIn tracePools c sender legs dIn minOut { ex := ex }))
    | _, _, _ => (c, "bad-op")
  | "splitout", sender :: dOut :: maxIn :: est :: ex :: legs =>
    match maxIn.toInt?, parseList parseEst est, parseList parseEx ex, parseLegsOut legs with
    | some maxIn, some est, some ex, some legs =>
      (c, showRes (splitRouteExactAmountOut tracePools c sender legs dOut maxIn { ex := ex, est := est }))
    | _, _, _, _ => (c, "bad-op")
  | _, _ => (c, "bad-op")

end OsmoVerif.Router
