/- line protocol for the `mint` engine

ops
  reset <start> <period> <factor> <staking> <pool> <dev> <comm> <prov> <vest> <weight:community>*   new history
  gauges <id>:<1|0>*                  the gauges that exist in x/incentives (1 = perpetual)
  distrinit <poolacct> <total> <gauge:weight>*   the stored DistrInfo and the pool-incentives module balance
  update <gauge:weight>*              UpdatePoolIncentivesProposal through the gov handler
  replace <gauge:weight>*             ReplacePoolIncentivesProposal
        -> `ok total=<TotalWeight> records=[g:w,…]` | `err` | `panic`
  exportimport <GenesisEpochProvisions raw Dec>   -> ok prov=… last=…   (C19: x/mint ExportGenesis -> InitGenesis: the provisions become the genesis value)
  epoch <n>                           the mint epoch hook (through the epochs hook wrapper)
        -> `ok minted=… … alloc=[g:amount,…] commtotal=<community pool funding> pacct=<module balance>` | `skip …` | `err …`
-/
import OsmoVerif.Model.Mint
import OsmoVerif.Model.PoolIncentives
import OsmoVerif.Model.Det
namespace OsmoVerif.Mint
open OsmoVerif.PoolIncentives

structure DrvState where
  p : Params := ⟨0, 1, 0, 0, 0, 0, 0, []⟩
  s : State := ⟨0, 0, 0⟩
  w : World := {}

def initMint : DrvState := {}

def parseReceivers : List String → Option (List Receiver)
  | [] => some []
  | x :: xs =>
    match x.splitOn ":" with
    | [w, c] => do
      let w ← w.toInt?
      let rs ← parseReceivers xs
      some (⟨w, c = "1"⟩ :: rs)
    | _ => none

def parseRecords : List String → Option (List Record)
  | [] => some []
  | x :: xs =>
    match x.splitOn ":" with
    | [g, w] => do
      let g ← g.toNat?
      let w ← w.toInt?
      let rs ← parseRecords xs
      some (⟨g, w⟩ :: rs)
    | _ => none

def parseGauges : List String → Option Gauges
  | [] => some []
  | x :: xs =>
    match x.splitOn ":" with
    | [g, p] => do
      let g ← g.toNat?
      let gs ← parseGauges xs
      some ((g, p = "1") :: gs)
    | _ => none

def showList (l : List Int) : String := "[" ++ ",".intercalate (l.map toString) ++ "]"
def showRecords (l : List Record) : String := "[" ++ ",".intercalate (l.map fun r => s!"{r.gauge}:{r.weight}") ++ "]"
def showAlloc (l : List (Nat × Int)) : String := "[" ++ ",".intercalate (l.map fun r => s!"{r.1}:{r.2}") ++ "]"

def showRes (st : DrvState) : Res DistrInfo → DrvState × String
  | .ok d => ({ st with w := { st.w with distr := d } }, s!"ok total={d.totalWeight} records={showRecords d.records}")
  | .err => (st, "err")
  | .panic => (st, "panic")

def stepMint (st : DrvState) (op : String) (args : List String) : DrvState × String :=
  match op, args with
  | "reset", start :: period :: factor :: staking :: pool :: dev :: comm :: prov :: vest :: recv =>
    match [start, period, factor, staking, pool, dev, comm, prov, vest].mapM String.toInt?, parseReceivers recv with
    | some [start, period, factor, staking, pool, dev, comm, prov, vest], some rs =>
      ({ p := ⟨start, period, factor, staking, pool, dev, comm, rs⟩, s := ⟨prov, 0, vest⟩ }, "ok")
    | _, _ => (st, "bad-op")
  | "gauges", gs =>
    match parseGauges gs with
    | some gs => ({ st with w := { st.w with gauges := gs } }, "ok")
    | none => (st, "bad-op")
  | "distrinit", acct :: total :: recs =>
    match acct.toInt?, total.toInt?, parseRecords recs with
    | some acct, some total, some rs => ({ st with w := { st.w with distr := ⟨total, rs⟩, poolAcct := acct } }, "ok")
    | _, _, _ => (st, "bad-op")
  | "update", recs =>
    match parseRecords recs with
    | some rs => showRes st (updateProposal st.w.gauges st.w.distr rs)
    | none => (st, "bad-op")
  | "replace", recs =>
    match parseRecords recs with
    | some rs => showRes st (replaceProposal st.w.gauges st.w.distr rs)
    | none => (st, "bad-op")
  | "epoch", [e] =>
    match e.toInt? with
    | none => (st, "bad-op")
    | some e =>
      match mintEpoch st.p st.s st.w e with
      | none => (st, s!"err prov={st.s.provisions} last={st.s.lastReduction}")
      | some (s', _, none) => ({ st with s := s' }, s!"skip prov={s'.provisions} last={s'.lastReduction}")
      | some (s', w', some (o, a)) =>
        let devComm := if st.p.receivers.isEmpty then o.dev else devToCommunity st.p.receivers o.paid
        ({ st with s := s', w := w' },
         s!"ok minted={o.minted} staking={o.staking} pool={o.pool} dev={o.dev} comm={o.communityRemainder} paid={showList o.paid} supply={o.supplyDelta} mintacct={o.mintAccountAfter} vest={s'.devVesting} prov={s'.provisions} last={s'.lastReduction} alloc={showAlloc a.gauges} commtotal={o.communityRemainder + devComm + a.community} pacct={a.left}")
  | "exportimport", [g0] =>
    match g0.toInt? with
    | some g0 =>
      let r := Det.mintInit (Det.mintExport g0 st.p st.s) st.s.devVesting
      ({ st with p := r.1, s := r.2 }, s!"ok prov={r.2.provisions} last={r.2.lastReduction}")
    | none => (st, "bad-op")
  | _, _ => (st, "bad-op")

end OsmoVerif.Mint
