/- line protocol for the `mint` engine
  reset <start> <period> <factor> <staking> <pool> <dev> <comm> <provisions> <vesting> <weight:community>…
  epoch <n>
  exportimport <GenesisEpochProvisions raw Dec>   -> ok prov=… last=…   (C19: x/mint ExportGenesis -> InitGenesis, `Det.mintInit (Det.mintExport g0 p s)`:
                                                     the provisions become the genesis value, everything else is kept) -/
import OsmoVerif.Model.Mint
import OsmoVerif.Model.Det
namespace OsmoVerif.Mint

structure DrvState where
  p : Params := ⟨0, 1, 0, 0, 0, 0, 0, []⟩
  s : State := ⟨0, 0, 0⟩

def initMint : DrvState := {}

def parseReceivers : List String → Option (List Receiver)
  | [] => some []
  | x :: xs =>
    match x.splitOn ":" with
    | [w, c] => do
      let w ← w.toInt?
      let rs ← parseReceivers xs
      some (⟨w, c = "1"⟩ :: rs)
    | _ => none

def showList (l : List Int) : String := "[" ++ ",".intercalate (l.map toString) ++ "]"

def stepMint (st : DrvState) (op : String) (args : List String) : DrvState × String :=
  match op, args with
  | "reset", start :: period :: factor :: staking :: pool :: dev :: comm :: prov :: vest :: recv =>
    match [start, period, factor, staking, pool, dev, comm, prov, vest].mapM String.toInt?, parseReceivers recv with
    | some [start, period, factor, staking, pool, dev, comm, prov, vest], some rs =>
      ({ p := ⟨start, period, factor, staking, pool, dev, comm, rs⟩, s := ⟨prov, 0, vest⟩ }, "ok")
    | _, _ => (st, "bad-op")
  | "epoch", [e] =>
    match e.toInt? with
    | none => (st, "bad-op")
    | some e =>
      match afterEpochEnd st.p st.s e with
      | none => (st, s!"err prov={st.s.provisions} last={st.s.lastReduction}")
      | some (s', none) => ({ st with s := s' }, s!"skip prov={s'.provisions} last={s'.lastReduction}")
      | some (s', some o) =>
        ({ st with s := s' },
         s!"ok minted={o.minted} staking={o.staking} pool={o.pool} dev={o.dev} comm={o.communityRemainder} paid={showList o.paid} supply={o.supplyDelta} mintacct={o.mintAccountAfter} vest={s'.devVesting} prov={s'.provisions} last={s'.lastReduction}")
  | "exportimport", [g0] =>
    match g0.toInt? with
    | some g0 =>
      let r := Det.mintInit (Det.mintExport g0 st.p st.s) st.s.devVesting
      ({ p := r.1, s := r.2 }, s!"ok prov={r.2.provisions} last={r.2.lastReduction}")
    | none => (st, "bad-op")
  | _, _ => (st, "bad-op")

end OsmoVerif.Mint
