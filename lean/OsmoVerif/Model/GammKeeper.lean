/-
GammKeeper: LEDGER + RECORD bookkeeping of the x/gamm keeper and the x/poolmanager router
(property C02).  The pool MATH is out of scope (property C04): every message carries the numeric
results the pool model produced in that step (`none` = the pool model returned an error / panicked)
and the functions below apply exactly the transfers, mints, burns and record updates the keeper code
performs with those amounts, failing where the keeper fails.

Go sources mirrored (function by function, see the doc comments):
  x/gamm/keeper/{swap.go, share.go, pool_service.go}, x/poolmanager/{router.go, taker_fee.go,
  create_pool.go}, and the RECORD updates of x/gamm/pool-models/{balancer,stableswap}/pool.go
  (`applySwap`/`UpdatePoolAssetBalances`, `IncreaseLiquidity`/`addToPoolAssetBalances`, `exitPool`,
  `updatePoolLiquidityForSwap`, `updatePoolForJoin`, `updatePoolLiquidityForExit`).

A message runs inside a cache context: `none` = the message failed and the state is unchanged.
Accounts and denoms are structured (`Acct`, `Denom`) so that "pool account", "share denom" are
constructors and not string predicates.

Ghost fields (no Go counterpart, never read by the message code):
  `donated`  coins sent directly to a pool address by `bankSend`;
  `clean`    becomes `false` when a RECORD update took a branch in which the record delta differs from
             the amounts transferred, i.e. when the trace left the pool-math CONTRACT the keeper relies on:
             (a) balancer `applySwap`/`exitPool`: a reserve would become exactly 0 — `sdk.NewCoins` /
                 `Coins.Sub` drop the zero coin and `UpdatePoolAssetBalances` never writes it;
             (b) `JoinPoolNoSwap`: the pool joined fewer coins than the keeper transfers.
Core only.
-/
import OsmoVerif.Model.Num
import OsmoVerif.Model.Ledger
import OsmoVerif.Gen.Gamm

namespace OsmoVerif.Gamm
open OsmoVerif.Num OsmoVerif.Ledger

inductive Acct where
  | user (n : Nat)
  | pool (id : Nat)          -- `poolmanagertypes.NewPoolAddress(id)`
  | feeCollector             -- module account `txfeestypes.TakerFeeCollectorName`
  | communityPool            -- distribution module account (`FundCommunityPool`)
  deriving DecidableEq, Repr

inductive Denom where
  | tok (name : String)
  | share (id : Nat)         -- `gamm/pool/<id>`
  deriving DecidableEq, Repr

abbrev Coins := List (Denom × Int)
abbrev GBank := Bank Acct Denom

inductive Kind where
  | balancer
  | stableswap
  deriving DecidableEq, Repr

/-- the pool RECORD as far as the property is concerned. -/
structure Pool where
  kind : Kind
  reserves : Coins          -- `GetTotalPoolLiquidity`, in the stored (denom-sorted) order
  totalShares : Int         -- `GetTotalShares`

namespace Pool
def res (p : Pool) (d : Denom) : Int := aget p.reserves d
def has (p : Pool) (d : Denom) : Bool := (afind? p.reserves d).isSome
def setRes (p : Pool) (d : Denom) (v : Int) : Pool := { p with reserves := aset p.reserves d v }
end Pool

structure Params where
  defaultTakerFee : Int := 0                         -- raw Dec
  pairFees : List ((Denom × Denom) × Int) := []      -- `DenomTradePairPrefix` store, (tokenIn, tokenOut) ↦ raw Dec
  whitelist : List Nat := []                         -- `ReducedTakerFeeByWhitelist` (users)
  creationFee : Coins := []                          -- `PoolCreationFee`

structure State where
  bank : GBank := {}
  pools : List (Nat × Pool) := []
  nextPoolId : Nat := 1
  params : Params := {}
  donated : List ((Nat × Denom) × Int) := []         -- ghost
  clean : Bool := true                               -- ghost

def getPool : List (Nat × Pool) → Nat → Option Pool
  | [], _ => none
  | (i, p) :: t, id => if i = id then some p else getPool t id

def setPool : List (Nat × Pool) → Nat → Pool → List (Nat × Pool)
  | [], id, p => [(id, p)]
  | (i, q) :: t, id, p => if i = id then (id, p) :: t else (i, q) :: setPool t id p

namespace State
def bal (s : State) (a : Acct) (d : Denom) : Int := s.bank.balance a d
def supply (s : State) (d : Denom) : Int := s.bank.supply d
def reserve (s : State) (id : Nat) (d : Denom) : Int :=
  match getPool s.pools id with
  | some p => p.res d
  | none => 0
def shares (s : State) (id : Nat) : Int :=
  match getPool s.pools id with
  | some p => p.totalShares
  | none => 0
def don (s : State) (id : Nat) (d : Denom) : Int := aget s.donated (id, d)
end State

/-- the keeper's `if … { return err }`: continue only when `c` holds. -/
def require (c : Bool) : Option Unit := if c then some () else none

/-! ## RECORD updates (pool-models) -/

/-- `SwapOutAmtGivenIn` / `SwapInAmtGivenOut` after the amounts are known.
balancer `applySwap`: in += a, out −= b, then `UpdatePoolAssetBalances(sdk.NewCoins(in, out))`:
`NewCoins` panics on a negative coin, DROPS a zero coin (that asset is then not written).
stableswap `updatePoolLiquidityForSwap`: `PoolLiquidity.Add(in).Sub(out)`, panics when negative or
when a denom disappears (zero).  Both panic / fail when a denom is not a pool asset.
Second component: the record delta equals (+a, −b). -/
def recSwap (p : Pool) (din : Denom) (a : Int) (dout : Denom) (b : Int) : Option (Pool × Bool) :=
  if !(p.has din) || !(p.has dout) then none else
  let ni := p.res din + a
  let no := p.res dout - b
  match p.kind with
  | .balancer =>
    if ni < 0 ∨ no < 0 then none else
    let p1 := if ni = 0 then p else p.setRes din ni
    let p2 := if no = 0 then p1 else p1.setRes dout no
    some (p2, !(decide (ni = 0)) && !(decide (no = 0)))
  | .stableswap =>
    if ni ≤ 0 ∨ no ≤ 0 then none else some ((p.setRes din ni).setRes dout no, true)

/-- balancer `IncreaseLiquidity` (`addToPoolAssetBalances`, panics on an unknown denom) and
stableswap `updatePoolForJoin` (panics when the number of denoms changes). -/
def recAddCoins (p : Pool) : Coins → Option Pool
  | [] => some p
  | (d, a) :: cs => if p.has d then recAddCoins (p.setRes d (p.res d + a)) cs else none

def recJoin (p : Pool) (coins : Coins) (sharesOut : Int) : Option Pool :=
  (recAddCoins p coins).map fun p' => { p' with totalShares := p'.totalShares + sharesOut }

/-- balancer `exitPool`: `balances := liquidity.Sub(exitCoins…)` panics when negative, a zero balance is
dropped and `UpdatePoolAssetBalances(balances)` does not write it; stableswap
`updatePoolLiquidityForExit` panics when a balance is negative or zero. -/
def recSubCoins (p : Pool) : Coins → Option (Pool × Bool)
  | [] => some (p, true)
  | (d, a) :: cs =>
    if !(p.has d) then none else
    let n := p.res d - a
    match p.kind with
    | .balancer =>
      if n < 0 then none
      else if n = 0 then (recSubCoins p cs).map fun r => (r.1, false)
      else recSubCoins (p.setRes d n) cs
    | .stableswap => if n ≤ 0 then none else recSubCoins (p.setRes d n) cs

def recExit (p : Pool) (coins : Coins) (sharesIn : Int) : Option (Pool × Bool) :=
  (recSubCoins p coins).map fun r => ({ r.1 with totalShares := r.1.totalShares - sharesIn }, r.2)

/-! ## keeper building blocks (x/gamm/keeper/share.go, swap.go) -/

def shareDenom (id : Nat) : Denom := .share id

/-- `applyJoinPoolStateChange`: SendCoins(joiner → pool, joinCoins); MintPoolShareToAccount; setPool. -/
def applyJoin (s : State) (u id : Nat) (p' : Pool) (numShares : Int) (joinCoins : Coins) (ok : Bool) : Option State := do
  let b1 ← s.bank.sendCoins (.user u) (.pool id) joinCoins
  let b2 ← b1.mint (.user u) (shareDenom id) numShares
  some { s with bank := b2, pools := setPool s.pools id p', clean := s.clean && ok }

/-- `applyExitPoolStateChange`: SendCoins(pool → exiter, exitCoins); BurnPoolShareFromAccount; setPool. -/
def applyExit (s : State) (u id : Nat) (p' : Pool) (numShares : Int) (exitCoins : Coins) (ok : Bool) : Option State := do
  let b1 ← s.bank.sendCoins (.pool id) (.user u) exitCoins
  let b2 ← b1.burn (.user u) (shareDenom id) numShares
  some { s with bank := b2, pools := setPool s.pools id p', clean := s.clean && ok }

/-- `updatePoolForSwap`: setPool; SendCoins(sender → pool, {tokenIn}); SendCoins(pool → sender, {tokenOut}). -/
def applySwap (s : State) (u id : Nat) (p' : Pool) (din : Denom) (a : Int) (dout : Denom) (b : Int) (ok : Bool) : Option State := do
  let b1 ← s.bank.send (.user u) (.pool id) din a
  let b2 ← b1.send (.pool id) (.user u) dout b
  some { s with bank := b2, pools := setPool s.pools id p', clean := s.clean && ok }

/-- gamm `Keeper.SwapExactAmountIn` (the spread-factor argument is the pool's own, so that check passes):
same denom → error; pool method (trace `math`; `none` = error / recovered panic); out ≤ 0 → error;
out < min → error; `updatePoolForSwap`. -/
def gammSwapIn (s : State) (u id : Nat) (din : Denom) (a : Int) (dout : Denom) (minOut : Int) (math : Option Int) :
    Option (State × Int) := do
  let p ← getPool s.pools id
  require (decide (din ≠ dout))
  let out ← math
  let (p', ok) ← recSwap p din a dout out
  require (decide (0 < out))
  require (decide (minOut ≤ out))
  let s' ← applySwap s u id p' din a dout out ok
  some (s', out)

/-- gamm `Keeper.SwapExactAmountOut`: same denom → error; `tokenOut ≥ reserve` → error; pool method;
in ≤ 0 → error; in > max → error; `updatePoolForSwap`. -/
def gammSwapOut (s : State) (u id : Nat) (din : Denom) (maxIn : Int) (dout : Denom) (b : Int) (math : Option Int) :
    Option (State × Int) := do
  let p ← getPool s.pools id
  require (decide (din ≠ dout))
  require (decide (b < p.res dout))
  let a ← math
  let (p', ok) ← recSwap p din a dout b
  require (decide (0 < a))
  require (decide (a ≤ maxIn))
  let s' ← applySwap s u id p' din a dout b ok
  some (s', a)

/-! ## taker fee (x/poolmanager/taker_fee.go) -/

/-- `GetTradingPairTakerFee(tokenIn, tokenOut)`: the stored override or the default. -/
def takerFee (pr : Params) (din dout : Denom) : Int :=
  match afind? pr.pairFees (din, dout) with
  | some f => f
  | none => pr.defaultTakerFee

/-- `SetDenomPairTakerFee`: a fee equal to the current default DELETES the override. -/
def setPairFee (pr : Params) (din dout : Denom) (f : Int) : Params :=
  if f = pr.defaultTakerFee then { pr with pairFees := aerase pr.pairFees (din, dout) }
  else { pr with pairFees := aset pr.pairFees (din, dout) f }

/-- `CalcTakerFeeExactIn`: after = ⌊(1 − f)·amt⌋ (`MulIntMut`, `TruncateInt`), fee = amt − after. -/
def calcTakerFeeExactIn (amt f : Int) : Option (Int × Int) := do
  let factor ← Dec.sub P18 f
  let m ← Dec.mulInt factor amt
  let after ← Dec.truncateInt m
  some (after, amt - after)

/-- `CalcTakerFeeExactOut`: after = ⌈amt / (1 − f)⌉ (`Quo` half-even at 18 decimals, `Ceil`, `TruncateInt`),
fee = after − amt.  f = 1 divides by zero (panic). -/
def calcTakerFeeExactOut (amt f : Int) : Option (Int × Int) := do
  let factor ← Dec.sub P18 f
  let q ← Dec.quo (amt * P18) factor
  let c ← Dec.ceil q
  let after ← Dec.truncateInt c
  some (after, after - amt)

def calcTakerFee (exactIn : Bool) (amt f : Int) : Option (Int × Int) :=
  if exactIn then calcTakerFeeExactIn amt f else calcTakerFeeExactOut amt f

/-- `chargeTakerFee`: whitelisted sender → nothing charged, nothing sent; otherwise the fee coin goes from the
sender to the taker-fee collector module account (`sdk.NewCoins(fee)`: negative panics, zero is dropped).
Returns (state, amount after the fee, fee). -/
def chargeTakerFee (s : State) (u : Nat) (din : Denom) (amt : Int) (dout : Denom) (exactIn : Bool) :
    Option (State × Int × Int) :=
  if s.params.whitelist.contains u then some (s, amt, 0) else
  match calcTakerFee exactIn amt (takerFee s.params din dout) with
  | none => none
  | some (after, fee) =>
    if fee < 0 then none
    else if fee = 0 then some (s, after, fee)
    else
      match s.bank.send (.user u) .feeCollector din fee with
      | none => none
      | some b => some ({ s with bank := b }, after, fee)

/-! ## router (x/poolmanager/router.go) -/

structure HopIn where
  pool : Nat
  dout : Denom
  math : Option Int        -- `SwapOutAmtGivenIn` result on this hop

/-- poolmanager `SwapExactAmountIn`: pool lookup, `chargeTakerFee(exactIn)`, the pool module's swap with the
remaining amount. -/
def hopIn (s : State) (u : Nat) (din : Denom) (amt : Int) (h : HopIn) (minOut : Int) : Option (State × Int) := do
  let _ ← getPool s.pools h.pool
  let (s1, after, _) ← chargeTakerFee s u din amt h.dout true
  gammSwapIn s1 u h.pool din after h.dout minOut h.math

/-- `RouteExactAmountIn` loop: the minimum is 1 on every hop but the last. -/
def routeInLoop (s : State) (u : Nat) (din : Denom) (amt : Int) (minOut : Int) : List HopIn → Option (State × Int)
  | [] => some (s, amt)
  | [h] => hopIn s u din amt h minOut
  | h :: h2 :: hs => do
    let (s1, out) ← hopIn s u din amt h 1
    routeInLoop s1 u h.dout out minOut (h2 :: hs)

/-- `RouteExactAmountIn`: an empty route does not validate. -/
def routeExactAmountIn (s : State) (u : Nat) (din : Denom) (amt : Int) (minOut : Int) (hops : List HopIn) :
    Option (State × Int) :=
  if hops.isEmpty then none else routeInLoop s u din amt minOut hops

structure HopOut where
  pool : Nat
  din : Denom
  est : Option Int         -- `CalcInAmtGivenOut` in `createMultihopExpectedSwapOuts` (initial state)
  math : Option Int        -- `SwapInAmtGivenOut` when the hop executes

/-- `createMultihopExpectedSwapOuts`: from the last hop to the first; the estimate always adds the pair's taker
fee (no whitelist test here). Returns `insExpected`. -/
def expectedIns (pr : Params) (final : Denom × Int) : List HopOut → Option (List Int)
  | [] => some []
  | h :: hs => do
    let rest ← expectedIns pr final hs
    let tout : Denom × Int := match hs, rest with
      | h2 :: _, x :: _ => (h2.din, x)
      | _, _ => final
    let tin ← h.est
    let (after, _) ← calcTakerFeeExactOut tin (takerFee pr h.din tout.1)
    some (after :: rest)

/-- one iteration of the `RouteExactAmountOut` loop: gamm `SwapExactAmountOut`, then `chargeTakerFee(exactOut)`
on the amount the swap took. Returns the amount in after the fee was added. -/
def hopOut (s : State) (u : Nat) (h : HopOut) (maxIn : Int) (tout : Denom × Int) : Option (State × Int) := do
  let (s1, a) ← gammSwapOut s u h.pool h.din maxIn tout.1 tout.2 h.math
  let (s2, after, _) ← chargeTakerFee s1 u h.din a tout.1 false
  some (s2, after)

/-- the swaps of `RouteExactAmountOut`, in route order; returns the first hop's amount in (fee included),
which is what the message reports. -/
def routeOutLoop (s : State) (u : Nat) (final : Denom × Int) : List HopOut → List Int → Option (State × Int)
  | [], _ => some (s, 0)
  | _ :: _, [] => none
  | h :: hs, e :: es => do
    let tout : Denom × Int := match hs, es with
      | h2 :: _, x :: _ => (h2.din, x)
      | _, _ => final
    let (s1, a) ← hopOut s u h e tout
    let (s2, _) ← routeOutLoop s1 u final hs es
    some (s2, a)

/-- `RouteExactAmountOut`: estimates, `insExpected[0] = tokenInMaxAmount`, then the swaps in route order. -/
def routeExactAmountOut (s : State) (u : Nat) (maxIn : Int) (dout : Denom) (amtOut : Int) (hops : List HopOut) :
    Option (State × Int) := do
  require (!hops.isEmpty)
  let ins ← expectedIns s.params (dout, amtOut) hops
  match ins with
  | [] => none
  | _ :: es => routeOutLoop s u (dout, amtOut) hops (maxIn :: es)

/-! ## liquidity messages (x/gamm/keeper/pool_service.go) -/

/-- `getMaximalNoSwapLPAmount`: shareRatio = shareOut / totalShares (`QuoInt`, truncated at 18 decimals; a zero
total panics), must be positive; per asset ⌈amount · shareRatio⌉ (`Mul`, `Ceil`, `RoundInt`), must be positive. -/
def neededLp (shareRatio : Int) : Coins → Option Coins
  | [] => some []
  | (d, amt) :: cs => do
    let m ← Dec.mul (amt * P18) shareRatio
    let c ← Dec.ceil m
    let n ← Dec.roundInt c
    require (decide (0 < n))
    let rest ← neededLp shareRatio cs
    some ((d, n) :: rest)

def getMaximalNoSwapLPAmount (p : Pool) (shareOut : Int) : Option Coins := do
  let ratio ← Dec.quoInt (shareOut * P18) p.totalShares
  require (decide (0 < ratio))
  neededLp ratio p.reserves

/-- `tokenInMaxs` test of `JoinPoolNoSwap` (skipped when empty): same denom aset as the needed coins and
every maximum ≥ the needed amount. -/
def maxsOk (needed maxs : Coins) : Bool :=
  maxs.isEmpty ||
  (needed.all (fun c => (afind? maxs c.1).isSome) && maxs.all (fun c => (afind? needed c.1).isSome) &&
   needed.all (fun c => decide (c.2 ≤ aget maxs c.1)))

/-- `JoinPoolNoSwap` (MsgJoinPool).  `math` = (`sharesOut`, coins the pool added to its record). -/
def joinPool (s : State) (u id : Nat) (shareOut : Int) (maxs : Coins) (math : Option (Int × Coins)) : Option State := do
  let p ← getPool s.pools id
  let needed ← getMaximalNoSwapLPAmount p shareOut
  require (maxsOk needed maxs)
  let (sharesOut, joined) ← math
  let p' ← recJoin p joined sharesOut
  applyJoin s u id p' sharesOut needed (decide (joined = needed))

/-- `JoinSwapExactAmountIn` with one coin (MsgJoinSwapExternAmountIn): the single-asset branch of `JoinPool`
adds exactly `tokensIn` to the record; shares < min → error; shares ≤ 0 → error. -/
def joinSwapExternAmountIn (s : State) (u id : Nat) (din : Denom) (amt : Int) (minShares : Int) (math : Option Int) :
    Option State := do
  let p ← getPool s.pools id
  let sharesOut ← math
  let p' ← recJoin p [(din, amt)] sharesOut
  require (decide (minShares ≤ sharesOut))
  require (decide (0 < sharesOut))
  applyJoin s u id p' sharesOut [(din, amt)] true

/-- `JoinSwapShareAmountOut`: only pools with the `PoolAmountOutExtension` (balancer); `CalcTokenInShareAmountOut`
(trace); > max → error; `sdk.NewCoins(NewCoin(denom, amt))` (negative panics, zero dropped);
`IncreaseLiquidity(shareOut, tokenIn)`; `applyJoinPoolStateChange`. -/
def joinSwapShareAmountOut (s : State) (u id : Nat) (din : Denom) (shareOut : Int) (maxIn : Int) (math : Option Int) :
    Option State := do
  let p ← getPool s.pools id
  require (decide (p.kind = .balancer))
  let tin ← math
  require (decide (tin ≤ maxIn))
  require (decide (0 ≤ tin))
  let coins : Coins := if tin = 0 then [] else [(din, tin)]
  let p' ← recJoin p coins shareOut
  applyJoin s u id p' shareOut coins true

/-- `tokenOutMins` test of `ExitPool`: denoms ⊆ exit coins and no minimum above the exit amount. -/
def minsOk (exitCoins mins : Coins) : Bool :=
  mins.all (fun c => (afind? exitCoins c.1).isSome && decide (c.2 ≤ aget exitCoins c.1))

/-- `ExitPool`: shares ≥ total or ≤ 0 → error; pool method (trace: the exit coins; the exit fee is 0 on every
pool that `InitializePool` accepts, and ALL of `shareInAmount` is burned); mins; `applyExitPoolStateChange`. -/
def exitPool (s : State) (u id : Nat) (shareIn : Int) (mins : Coins) (math : Option Coins) : Option (State × Coins) := do
  let p ← getPool s.pools id
  require (decide (shareIn < p.totalShares))
  require (decide (0 < shareIn))
  let exitCoins ← math
  let (p', ok) ← recExit p exitCoins shareIn
  require (minsOk exitCoins mins)
  let s' ← applyExit s u id p' shareIn exitCoins ok
  some (s', exitCoins)

/-- the swaps of `ExitSwapShareAmountIn`: every exit coin of another denom is swapped into `dout` through gamm
`SwapExactAmountIn` directly (no taker fee, minimum 0). `maths` lists the swap results in exit-coin order. -/
def exitSwapLoop (s : State) (u id : Nat) (dout : Denom) (acc : Int) : Coins → List (Option Int) → Option (State × Int)
  | [], _ => some (s, acc)
  | (d, a) :: cs, ms =>
    if d = dout then exitSwapLoop s u id dout acc cs ms else
    match ms with
    | [] => none
    | m :: ms' => do
      let (s1, out) ← gammSwapIn s u id d a dout 0 m
      exitSwapLoop s1 u id dout (acc + out) cs ms'

/-- `ExitSwapShareAmountIn`. -/
def exitSwapShareAmountIn (s : State) (u id : Nat) (dout : Denom) (shareIn : Int) (minOut : Int)
    (math : Option Coins) (maths : List (Option Int)) : Option (State × Int) := do
  let (s1, exitCoins) ← exitPool s u id shareIn [] math
  let (s2, total) ← exitSwapLoop s1 u id dout (sumOf exitCoins dout) exitCoins maths
  require (decide (minOut ≤ total))
  some (s2, total)

/-- `ExitSwapExactAmountOut`: extension pools only; pool method `ExitSwapExactAmountOut` (trace: shares in; it
also tests the maximum and updates the record through `exitPool(NewCoins(tokenOut), sharesIn)`);
`applyExitPoolStateChange(…, Coins{tokenOut})`. -/
def exitSwapExternAmountOut (s : State) (u id : Nat) (dout : Denom) (amtOut : Int) (math : Option Int) : Option State := do
  let p ← getPool s.pools id
  require (decide (p.kind = .balancer))
  let sharesIn ← math
  require (decide (0 ≤ amtOut))
  let (p', ok) ← recExit p (if amtOut = 0 then [] else [(dout, amtOut)]) sharesIn
  applyExit s u id p' sharesIn [(dout, amtOut)] ok

/-! ## pool creation (x/poolmanager/create_pool.go, gamm `InitializePool`) -/

def denomsNodup : Coins → Bool
  | [] => true
  | (d, _) :: cs => !(cs.any fun c => c.1 = d) && denomsNodup cs

/-- shape test of the create message (`validateUserSpecifiedPoolAssets` / `validatePoolLiquidity`). -/
def validLiquidity (liq : Coins) : Bool :=
  decide (Gen.Gamm.MinNumOfAssetsInPool ≤ liq.length) && decide (liq.length ≤ Gen.Gamm.MaxNumOfAssetsInPool) &&
  liq.all (fun c => decide (0 < c.2)) && denomsNodup liq

/-- `CreatePool`: next pool id, pool record with `InitPoolSharesSupply` shares, `InitializePool` mints them to the
creator, creation fee to the community pool, initial liquidity to the pool address. -/
def createPool (s : State) (u : Nat) (kind : Kind) (liq : Coins) : Option State := do
  require (validLiquidity liq)
  let id := s.nextPoolId
  let p : Pool := { kind := kind, reserves := liq, totalShares := Gen.Gamm.InitPoolSharesSupply }
  let b1 ← s.bank.mint (.user u) (shareDenom id) Gen.Gamm.InitPoolSharesSupply
  let b2 ← b1.sendCoins (.user u) .communityPool s.params.creationFee
  let b3 ← b2.sendCoins (.user u) (.pool id) liq
  some { s with bank := b3, pools := setPool s.pools id p, nextPoolId := id + 1 }

/-- direct bank send by a user (donation when the recipient is a pool address). -/
def bankSend (s : State) (u : Nat) (to : Acct) (d : Denom) (amt : Int) : Option State := do
  let b ← s.bank.send (.user u) to d amt
  let don := match to with
    | .pool id => aset s.donated (id, d) (aget s.donated (id, d) + amt)
    | _ => s.donated
  some { s with bank := b, donated := don }

/-! ## messages -/

inductive Msg where
  | createPool (u : Nat) (kind : Kind) (liq : Coins)
  | joinPool (u id : Nat) (shareOut : Int) (maxs : Coins) (math : Option (Int × Coins))
  | joinSwapExternAmountIn (u id : Nat) (din : Denom) (amt minShares : Int) (math : Option Int)
  | joinSwapShareAmountOut (u id : Nat) (din : Denom) (shareOut maxIn : Int) (math : Option Int)
  | exitPool (u id : Nat) (shareIn : Int) (mins : Coins) (math : Option Coins)
  | exitSwapShareAmountIn (u id : Nat) (dout : Denom) (shareIn minOut : Int) (math : Option Coins) (maths : List (Option Int))
  | exitSwapExternAmountOut (u id : Nat) (dout : Denom) (amtOut : Int) (math : Option Int)
  | swapExactAmountIn (u : Nat) (din : Denom) (amt minOut : Int) (hops : List HopIn)
  | swapExactAmountOut (u : Nat) (maxIn : Int) (dout : Denom) (amtOut : Int) (hops : List HopOut)
  | bankSend (u : Nat) (to : Acct) (d : Denom) (amt : Int)

def Msg.sender : Msg → Nat
  | .createPool u .. | .joinPool u .. | .joinSwapExternAmountIn u .. | .joinSwapShareAmountOut u ..
  | .exitPool u .. | .exitSwapShareAmountIn u .. | .exitSwapExternAmountOut u ..
  | .swapExactAmountIn u .. | .swapExactAmountOut u .. | .bankSend u .. => u

/-- one message inside its cache context: `none` = failed, nothing written. -/
def step (s : State) : Msg → Option State
  | .createPool u k liq => createPool s u k liq
  | .joinPool u id sh maxs m => joinPool s u id sh maxs m
  | .joinSwapExternAmountIn u id d a ms m => joinSwapExternAmountIn s u id d a ms m
  | .joinSwapShareAmountOut u id d sh mx m => joinSwapShareAmountOut s u id d sh mx m
  | .exitPool u id sh mins m => (exitPool s u id sh mins m).map (·.1)
  | .exitSwapShareAmountIn u id d sh mn m ms => (exitSwapShareAmountIn s u id d sh mn m ms).map (·.1)
  | .exitSwapExternAmountOut u id d a m => exitSwapExternAmountOut s u id d a m
  | .swapExactAmountIn u d a mn hops => (routeExactAmountIn s u d a mn hops).map (·.1)
  | .swapExactAmountOut u mx d a hops => (routeExactAmountOut s u mx d a hops).map (·.1)
  | .bankSend u to d a => bankSend s u to d a

/-- a failed message leaves the state as it was. -/
def apply (s : State) (m : Msg) : State :=
  match step s m with
  | some s' => s'
  | none => s

/-- test-harness operation (not a chain message): mint fresh coins to a user. -/
def fund (s : State) (u : Nat) (d : Denom) (amt : Int) : Option State :=
  (s.bank.mint (.user u) d amt).map fun b => { s with bank := b }

/-- everything that happens to a chain in a history: a message, the harness minting TOKEN coins to a user,
a parameter change (taker fees, whitelist, creation fee). -/
inductive Op where
  | msg (m : Msg)
  | fund (u : Nat) (name : String) (amt : Int)
  | setParams (p : Params)

def applyOp (s : State) : Op → State
  | .msg m => apply s m
  | .fund u n a =>
    match fund s u (.tok n) a with
    | some s' => s'
    | none => s
  | .setParams p => { s with params := p }

def runOps (s : State) : List Op → State
  | [] => s
  | o :: os => runOps (applyOp s o) os

end OsmoVerif.Gamm
