/-
Spread-reward bookkeeping of one concentrated-liquidity pool, layered on top of `Model/CLPool.lean`:
  spread_rewards.go  (initOrUpdatePositionSpreadRewardAccumulator, getSpreadRewardGrowthOutside,
                      calculateSpreadRewardGrowth, getInitial…ForTick, prepareClaimableSpreadRewards,
                      collectSpreadRewards, updatePositionToInitValuePlusGrowthOutside, scaleDownSpreadRewardAmount)
  tick.go            (GetTickInfo/makeInitialTickInfo initial convention, crossTick flip, RemoveTickInfo)
  swaps.go           (updateSpreadRewardGrowthGlobal per step, swapCrossTickLogic, AddToAccumulator at the end)
  incentives.go      (updateAccumAndClaimRewards)
  lp.go              (where CreatePosition / WithdrawPosition / addToPosition call the above)
  osmoutils/accum    (NewPositionIntervalAccumulation, UpdatePositionIntervalAccumulation, SetPositionInterval-
                      Accumulation, ClaimRewards, GetTotalRewards, AddToAccumulator) and the sdk DecCoins methods
                      they use, specialised to the two pool denoms.
The pool component of every operation is EXACTLY the `CLPool` operation (the theorems of C01/C03/C07 about
`CLPool.Pool` apply to `Fees.pool` unchanged).  `Pool.fee0/fee1` stay what they are in `CLPool`: the total
spread fees ever transferred to the spread-reward address; `Fees.out0/out1` is the total ever paid out of it,
so the address balance is `fee − out`.

`V2` = a `DecCoins` over the two pool denoms (token0, token1) as raw 18-decimal amounts; the sdk normal form
(no zero entry) is the pair itself (`0` = absent).  `none` = error or panic (the message is atomic).  Core only.
-/
import OsmoVerif.Model.CLPool
import OsmoVerif.Model.CLRewards

namespace OsmoVerif.CLFees
open OsmoVerif.Num OsmoVerif.CL OsmoVerif.CLPool OsmoVerif.CLRewards

/-! ### DecCoins over (token0, token1) -/

structure V2 where
  a : Int
  b : Int
  deriving Repr, DecidableEq

namespace V2

def zero : V2 := ⟨0, 0⟩

/-- `DecCoins.Add` (`safeAdd`): `LegacyDec.Add` per denom (overflow panics). -/
def add (x y : V2) : Option V2 :=
  (Dec.add x.a y.a).bind fun a => (Dec.add x.b y.b).map fun b => ⟨a, b⟩

def neg (x : V2) : V2 := ⟨-x.a, -x.b⟩

/-- `DecCoins.SafeSub`: the difference (components may be negative). -/
def safeSub (x y : V2) : Option V2 := add x (neg y)

def anyNeg (x : V2) : Bool := x.a < 0 || x.b < 0

/-- `DecCoins.Sub`: panics ("negative coin amount") when a component is negative. -/
def sub (x y : V2) : Option V2 :=
  (safeSub x y).bind fun r => if anyNeg r then none else some r

/-- `DecCoins.MulDec`: `LegacyDec.Mul` (half-even) per denom. -/
def mulDec (x : V2) (s : Int) : Option V2 :=
  (Dec.mul x.a s).bind fun a => (Dec.mul x.b s).map fun b => ⟨a, b⟩

/-- `DecCoins.QuoDecTruncate` (`LegacyDec.QuoTruncate` per denom; division by zero panics). -/
def quoTruncate (x : V2) (d : Int) : Option V2 :=
  (Dec.quoTruncate x.a d).bind fun a => (Dec.quoTruncate x.b d).map fun b => ⟨a, b⟩

def isZero (x : V2) : Bool := x.a = 0 && x.b = 0

/-- one coin of `DecCoins.TruncateDecimal`: integer part (a `Coin`: panics when negative) and change
(a `DecCoin`: panics when negative). -/
def truncOne (x : Int) : Option (Int × Int) :=
  (Dec.truncateInt x).bind fun q => (Dec.sub x (q * P18)).bind fun ch =>
    if q < 0 ∨ ch < 0 then none else some (q, ch)

/-- `DecCoins.TruncateDecimal`: integer coins and the change. -/
def truncateDecimal (x : V2) : Option ((Int × Int) × V2) :=
  (truncOne x.a).bind fun ra => (truncOne x.b).map fun rb => ((ra.1, rb.1), ⟨ra.2, rb.2⟩)

/-- the DecCoin `{tokenIn denom, amount}` of a swap (zero-for-one: token0 in). -/
def ofIn (zfo : Bool) (x : Int) : V2 := if zfo then ⟨x, 0⟩ else ⟨0, x⟩

end V2

/-! ### accumulator state -/

/-- `accum.Record` of a position in the pool's spread-reward accumulator. -/
structure Rec where
  id : Nat
  shares : Int        -- NumShares (= position liquidity)
  snap : V2           -- AccumValuePerShare (growth inside at the last update)
  unclaimed : V2      -- UnclaimedRewardsTotal
  deriving Repr, DecidableEq

structure Acc where
  global : V2 := V2.zero                -- AccumulatorContent.AccumValue
  totalShares : Int := 0                -- AccumulatorContent.TotalShares
  outs : List (Int × V2) := []          -- SpreadRewardGrowthOppositeDirectionOfLastTraversal per stored tick, sorted
  recs : List Rec := []
  deriving Repr

structure Fees where
  pool : Pool
  acc : Acc := {}
  out0 : Int := 0       -- total spread rewards ever paid out of the spread-reward address
  out1 : Int := 0
  deriving Repr

def getOut (outs : List (Int × V2)) (t : Int) : Option V2 := (outs.find? (·.1 = t)).map (·.2)

/-- `getInitialSpreadRewardGrowthOppositeDirectionOfLastTraversalForTick`. -/
def initialOut (cur : Int) (global : V2) (t : Int) : V2 := if cur ≥ t then global else V2.zero

/-- `GetTickInfo(...).SpreadRewardGrowthOppositeDirectionOfLastTraversal`: the stored value, or the initial one
for a tick that is not stored (`makeInitialTickInfo`; nothing is written). -/
def tickOut (cur : Int) (global : V2) (outs : List (Int × V2)) (t : Int) : V2 :=
  match getOut outs t with
  | some v => v
  | none => initialOut cur global t

def insertOut (outs : List (Int × V2)) (t : Int) (v : V2) : List (Int × V2) :=
  match outs with
  | [] => [(t, v)]
  | x :: xs => if t < x.1 then (t, v) :: x :: xs else if t = x.1 then (t, v) :: xs else x :: insertOut xs t v

/-- `initOrUpdateTick` as far as the growth-outside field goes: a tick that is not stored yet is stored with
the initial value, a stored one keeps its value. -/
def initTick (outs : List (Int × V2)) (cur : Int) (global : V2) (t : Int) : List (Int × V2) :=
  match getOut outs t with
  | some _ => outs
  | none => insertOut outs t (initialOut cur global t)

def setOut (outs : List (Int × V2)) (t : Int) (v : V2) : List (Int × V2) :=
  outs.map fun o => if o.1 = t then (t, v) else o

/-- `calculateSpreadRewardGrowth` for the upper tick (growth above it). -/
def growthAbove (cur : Int) (global out : V2) (upper : Int) : Option V2 :=
  if cur ≥ upper then V2.sub global out else some out

/-- `calculateSpreadRewardGrowth` for the lower tick (growth below it). -/
def growthBelow (cur : Int) (global out : V2) (lower : Int) : Option V2 :=
  if cur < lower then V2.sub global out else some out

/-- `getSpreadRewardGrowthOutside`. -/
def growthOutside (cur : Int) (global : V2) (outs : List (Int × V2)) (lower upper : Int) : Option V2 :=
  (growthAbove cur global (tickOut cur global outs upper) upper).bind fun above =>
    (growthBelow cur global (tickOut cur global outs lower) lower).bind fun below => V2.add above below

/-- growth inside the range: `accum.GetValue().SafeSub(growthOutside)`. -/
def growthInside (cur : Int) (global : V2) (outs : List (Int × V2)) (lower upper : Int) : Option V2 :=
  (growthOutside cur global outs lower upper).bind fun o => V2.safeSub global o

def getRec (recs : List Rec) (id : Nat) : Option Rec := recs.find? (·.id = id)

def setRec (recs : List Rec) (r : Rec) : List Rec := recs.map fun x => if x.id = r.id then r else x

def delRec (recs : List Rec) (id : Nat) : List Rec := recs.filter (·.id ≠ id)

/-- `accum.GetTotalRewards`: unclaimed + (value − snapshot).MulDec(shares). -/
def totalRewards (global : V2) (shares : Int) (snap unclaimed : V2) : Option V2 :=
  (V2.sub global snap).bind fun diff => (V2.mulDec diff shares).bind fun acc => V2.add unclaimed acc

/-- `initOrUpdatePositionSpreadRewardAccumulator(lower, upper, positionId, liquidityDelta)` at current tick `cur`. -/
def Acc.updPos (a : Acc) (cur lower upper : Int) (id : Nat) (delta : Int) : Option Acc :=
  (growthOutside cur a.global a.outs lower upper).bind fun outside =>
  (V2.safeSub a.global outside).bind fun inside =>
  match getRec a.recs id with
  | none =>
    -- NewPositionIntervalAccumulation
    if delta ≤ 0 then none else
    (Dec.add a.totalShares delta).map fun tot =>
      { a with recs := a.recs ++ [⟨id, delta, inside, V2.zero⟩], totalShares := tot }
  | some r =>
    -- updatePositionToInitValuePlusGrowthOutside, then UpdatePositionIntervalAccumulation
    (V2.add r.snap outside).bind fun snap1 =>
    if delta = 0 then none
    else if delta < 0 ∧ -delta > r.shares then none
    else
      (totalRewards a.global r.shares snap1 r.unclaimed).bind fun rewards =>
      (Dec.add r.shares delta).bind fun sh =>
      (Dec.add a.totalShares delta).map fun tot =>
        { a with recs := setRec a.recs ⟨id, sh, inside, rewards⟩, totalShares := tot }

/-- `scaleDownSpreadRewardAmount`. -/
def scaleDown (q scale : Int) : Option Int := (Dec.quoTruncate (q * P18) scale).bind Dec.truncateInt

/-- `prepareClaimableSpreadRewards` for position `id` with range `[lower, upper)`: the claimed coins and the
new accumulator state (`updateAccumAndClaimRewards`, scale-down, forfeited dust back to the accumulator). -/
def Acc.prepareClaim (a : Acc) (scale cur lower upper : Int) (id : Nat) : Option (Acc × (Int × Int)) :=
  match getRec a.recs id with
  | none => none                                    -- SpreadRewardPositionNotFoundError
  | some r =>
    (growthOutside cur a.global a.outs lower upper).bind fun outside =>
    (V2.add r.snap outside).bind fun snap1 =>
    (totalRewards a.global r.shares snap1 r.unclaimed).bind fun total =>
    (V2.truncateDecimal total).bind fun (coins, dust) =>
    -- ClaimRewards: record removed when it holds no shares, else reset; then re-based to the growth inside
    (if r.shares = 0 then some (delRec a.recs id)
     else (V2.safeSub a.global outside).map fun inside => setRec a.recs ⟨id, r.shares, inside, V2.zero⟩).bind fun recs' =>
    (if scale = P18 then some (coins, dust)
     else (scaleDown coins.1 scale).bind fun c0 => (scaleDown coins.2 scale).map fun c1 => ((c0, c1), V2.zero)).bind
    fun (claimed, fdust) =>
    (if fdust.isZero ∨ a.totalShares = 0 then some a.global
     else (V2.quoTruncate fdust a.totalShares).bind fun perShare => V2.add a.global perShare).map fun global' =>
    ({ a with recs := recs', global := global' }, claimed)

/-- `updateSpreadRewardGrowthGlobal` + `swapCrossTickLogic`/`crossTick` along the step trace of a swap:
`acc` is `swapState.globalSpreadRewardGrowthPerUnitLiquidity`; the accumulator itself is only written at the
end of the swap, a crossed tick is flipped against `accumulator value + acc`. -/
def foldTrace (scale : Int) (zfo : Bool) (global : V2) : List StepTrace → Int → List (Int × V2) → Option (Int × List (Int × V2))
  | [], acc, outs => some (acc, outs)
  | tr :: rest, acc, outs =>
    (spreadGrowth tr.charge tr.liq scale).bind fun g =>
    (Dec.add acc g).bind fun acc' =>
    match tr.crossed with
    | none => foldTrace scale zfo global rest acc' outs
    | some t =>
      (getOut outs t).bind fun o =>
      (V2.add global (V2.ofIn zfo acc')).bind fun cur =>
      (V2.sub cur o).bind fun o' => foldTrace scale zfo global rest acc' (setOut outs t o')

/-! ### the operations -/

def findPos (p : Pool) (id : Nat) : Option Position := p.positions.find? (·.id = id)

/-- `CreatePosition` with minimum amounts. -/
def createPositionMin (f : Fees) (owner : String) (lower upper amount0 amount1 min0 min1 : Int) :
    Option (Fees × Nat × Int × Int × Int × Int × Int) :=
  (CLPool.createPositionMin f.pool owner lower upper amount0 amount1 min0 min1).bind fun (p', id, x0, x1, liq, lo, up) =>
    let outs1 := initTick f.acc.outs p'.tick f.acc.global lo
    let outs2 := initTick outs1 p'.tick f.acc.global up
    (Acc.updPos { f.acc with outs := outs2 } p'.tick lo up id liq).map fun a' =>
      ({ f with pool := p', acc := a' }, id, x0, x1, liq, lo, up)

def createPosition (f : Fees) (owner : String) (lower upper amount0 amount1 : Int) :=
  createPositionMin f owner lower upper amount0 amount1 0 0

/-- bank send of the claimed coins out of the spread-reward address (nothing is sent for zero coins). -/
def payOut (f : Fees) (c : Int × Int) : Option Fees :=
  if c.1 = 0 ∧ c.2 = 0 then some f
  else if f.pool.fee0 - f.out0 < c.1 ∨ f.pool.fee1 - f.out1 < c.2 then none
  else some { f with out0 := f.out0 + c.1, out1 := f.out1 + c.2 }

/-- keep the growth-outside entries of the ticks that are still stored (`RemoveTickInfo`). -/
def syncOuts (outs : List (Int × V2)) (ticks : List TickInfo) : List (Int × V2) :=
  outs.filter fun o => ticks.any (·.tick = o.1)

/-- `WithdrawPosition`: the position accumulator is updated at the tick the pool has during the call (a pool
that loses its last position is reset to tick 0 only afterwards); a full withdrawal collects. -/
def withdrawPosition (f : Fees) (owner : String) (id : Nat) (req : Int) : Option (Fees × Int × Int) :=
  (findPos f.pool id).bind fun pos =>
  (CLPool.withdrawPosition f.pool owner id req).bind fun (p', o0, o1) =>
  (Acc.updPos f.acc f.pool.tick pos.lower pos.upper id (-req)).bind fun a1 =>
  (if req = pos.liq then
      (Acc.prepareClaim a1 f.pool.scale f.pool.tick pos.lower pos.upper id).bind fun (a2, c) =>
        (payOut { f with pool := p', acc := a2 } c)
    else some { f with pool := p', acc := a1 }).map fun f2 =>
  ({ f2 with acc := { f2.acc with outs := syncOuts f2.acc.outs p'.ticks } }, o0, o1)

/-- `addToPosition`: full withdrawal (which collects) and a new position over the same range. -/
def addToPosition (f : Fees) (owner : String) (id : Nat) (add0 add1 : Int) : Option (Fees × Nat × Int × Int) :=
  (findPos f.pool id).bind fun pos =>
  if owner ≠ pos.owner then none else
  if add0 < 0 ∨ add1 < 0 then none else
  if add0 = 0 ∧ add1 = 0 then none else
  (withdrawPosition f owner id pos.liq).bind fun (f1, w0, w1) =>
  if f1.pool.positions.isEmpty then none else
  (createPositionMin f1 owner pos.lower pos.upper (w0 + add0) (w1 + add1) w0 w1).map fun (f2, nid, a0, a1, _, _, _) =>
    (f2, nid, a0, a1)

/-- `transferPositions`: the accumulator record stays with the position id. -/
def transferPosition (f : Fees) (sender : String) (id : Nat) (newOwner : String) : Option Fees :=
  (CLPool.transferPosition f.pool sender id newOwner).map fun p' => { f with pool := p' }

/-- executed swap: pool update as in `CLPool.swap`; tick flips and accumulator growth along the step trace. -/
def swap (f : Fees) (outGivenIn zfo : Bool) (specified : Int) : Option (Fees × Int × Int × Int) :=
  (CLPool.swap f.pool outGivenIn zfo specified).bind fun (p', ain, aout, fee) =>
  (swapTrace f.pool.scale outGivenIn zfo f.pool.spf (execPriceLimit zfo) ⟨f.pool.sqrtPrice, f.pool.tick, f.pool.liquidity⟩
      (f.pool.ticks.map fun t => (t.tick, t.net)) specified).bind fun trs =>
  (foldTrace f.pool.scale zfo f.acc.global trs 0 f.acc.outs).bind fun (g, outs') =>
  if g < 0 then none else                         -- sdk.NewDecCoins validates the coin
  (V2.add f.acc.global (V2.ofIn zfo g)).map fun global' =>
    ({ f with pool := p', acc := { f.acc with global := global', outs := outs' } }, ain, aout, fee)

/-- `collectSpreadRewards` (one position id). -/
def collect (f : Fees) (sender : String) (id : Nat) : Option (Fees × Int × Int) :=
  (findPos f.pool id).bind fun pos =>
  if sender ≠ pos.owner then none else
  (Acc.prepareClaim f.acc f.pool.scale f.pool.tick pos.lower pos.upper id).bind fun (a1, c) =>
  (payOut { f with acc := a1 } c).map fun f1 => (f1, c.1, c.2)

/-- `GetClaimableSpreadRewards` (a query: cache context, the state is discarded). -/
def claimable (f : Fees) (id : Nat) : Option (Int × Int) :=
  (findPos f.pool id).bind fun pos =>
  (Acc.prepareClaim f.acc f.pool.scale f.pool.tick pos.lower pos.upper id).map (·.2)

end OsmoVerif.CLFees
