/- line protocol for the `cl` (app) engine: the pool state machine -/
import OsmoVerif.Model.CLPool
import OsmoVerif.Model.CLPoolGenesis
import OsmoVerif.Model.DrvCL
namespace OsmoVerif.CLPool
open OsmoVerif.CL

def initCLPool : Pool := { spacing := 1, spf := 0 }

def dumpPool (p : Pool) : String :=
  let ts := " ".intercalate (p.ticks.map fun t => s!"{t.tick}:{t.gross}:{t.net}")
  let ps := " ".intercalate (p.positions.map fun q => s!"{q.id}:{q.owner}:{q.lower}:{q.upper}:{q.liq}")
  s!"ok sp={p.sqrtPrice} tick={p.tick} liq={p.liquidity} bal0={p.bal0} bal1={p.bal1} T[{ts}] P[{ps}]"

def stepCLPool (p : Pool) (op : String) (args : List String) : Pool × String :=
  match op, args with
  | "reset", [spacing, spf, scale] =>
    match ints [spacing, spf, scale] with
    | some [spacing, spf, scale] => ({ spacing := spacing, spf := spf, scale := scale }, "ok")
    | _ => (p, "bad-op")
  | "create", [owner, lower, upper, a0, a1] =>
    match ints [lower, upper, a0, a1] with
    | some [lower, upper, a0, a1] =>
      match createPosition p owner lower upper a0 a1 with
      | some (p', id, x0, x1, liq, lo, up) => (p', s!"ok id={id} a0={x0} a1={x1} liq={liq} lower={lo} upper={up}")
      | none => (p, "err")
    | _ => (p, "bad-op")
  | "withdraw", [owner, id, liq] =>
    match id.toNat?, liq.toInt? with
    | some id, some liq =>
      match withdrawPosition p owner id liq with
      | some (p', x0, x1) => (p', s!"ok a0={x0} a1={x1}")
      | none => (p, "err")
    | _, _ => (p, "bad-op")
  | "add", [owner, id, a0, a1] =>
    match id.toNat?, ints [a0, a1] with
    | some id, some [a0, a1] =>
      match addToPosition p owner id a0 a1 with
      | some (p', nid, x0, x1) => (p', s!"ok id={nid} a0={x0} a1={x1}")
      | none => (p, "err")
    | _, _ => (p, "bad-op")
  | "transfer", [sender, id, newOwner] =>
    match id.toNat? with
    | some id =>
      match transferPosition p sender id newOwner with
      | some p' => (p', "ok")
      | none => (p, "err")
    | none => (p, "bad-op")
  | "swap", [ogi, zfo, specified] =>
    match bool? ogi, bool? zfo, specified.toInt? with
    | some ogi, some zfo, some specified =>
      match swap p ogi zfo specified with
      | some (p', ain, aout, fee) => (p', s!"ok in={ain} out={aout} fee={fee}")
      | none => (p, "err")
    | _, _, _ => (p, "bad-op")
  | "est", [ogi, zfo, specified] =>
    match bool? ogi, bool? zfo, specified.toInt? with
    | some ogi, some zfo, some specified =>
      if p.positions.isEmpty then (p, "err") else
      match estimateSwap ogi zfo p.spf ⟨p.sqrtPrice, p.tick, p.liquidity⟩ (p.ticks.map fun t => (t.tick, t.net)) specified with
      | some a => (p, s!"ok {a}")
      | none => (p, "err")
    | _, _, _ => (p, "bad-op")
  -- real ExportGenesis, CL store wiped, real InitGenesis (Model/CLPoolGenesis.lean)
  | "exportimport", [] => (exportImport p, "ok")
  | "nextid", [] => (p, s!"ok {p.nextId}")
  -- position ids are global to the module: another pool (outside this per-pool model) created positions; the engine tells the
  -- keeper's next position id.  Only forwards (ids are never re-used).
  | "setnextid", [n] =>
    match n.toNat? with
    | some n => if p.nextId ≤ n then ({ p with nextId := n }, "ok") else (p, "err")
    | none => (p, "bad-op")
  | "dump", [] => (p, dumpPool p)
  | _, _ => (p, "bad-op")

end OsmoVerif.CLPool
