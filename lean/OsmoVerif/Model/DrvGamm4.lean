/- line protocol of the `gammmath` engine (property C04): stateless ops, the whole pool travels in the line.

  balancer pool  P := n (denom reserve userWeight)×n totalShares swapFee exitFee
  stableswap     S := n (denom reserve scalingFactor)×n totalShares
  coins          C := k (denom amount)×k
  results: `ok …` / `err` / `panic`; a pool is printed as `[d=r,…;T=shares]`.
-/
import OsmoVerif.Model.Gamm
import OsmoVerif.Model.DrvNum
namespace OsmoVerif.GammMath
open OsmoVerif.Num OsmoVerif.MathM

def takeTriples : Nat → List String → Option (List (String × Int × Int) × List String)
  | 0, rest => some ([], rest)
  | n + 1, d :: a :: b :: rest => do
    let a ← a.toInt?
    let b ← b.toInt?
    let (xs, rest') ← takeTriples n rest
    some ((d, a, b) :: xs, rest')
  | _, _ => none

def takePairs : Nat → List String → Option (Coins × List String)
  | 0, rest => some ([], rest)
  | n + 1, d :: a :: rest => do
    let a ← a.toInt?
    let (xs, rest') ← takePairs n rest
    some ((d, a) :: xs, rest')
  | _, _ => none

def parseBal : List String → Option (BalPool × List String)
  | n :: rest => do
    let n ← n.toNat?
    let (as, rest) ← takeTriples n rest
    match rest with
    | t :: sf :: ef :: rest => do
      let t ← t.toInt?
      let sf ← sf.toInt?
      let ef ← ef.toInt?
      some (mkBalPool as t sf ef, rest)
    | _ => none
  | _ => none

def parseSS : List String → Option (SSPool × List String)
  | n :: rest => do
    let n ← n.toNat?
    let (as, rest) ← takeTriples n rest
    match rest with
    | t :: rest => do
      let t ← t.toInt?
      some (⟨as.map fun (d, r, s) => ⟨d, r, s⟩, t⟩, rest)
    | _ => none
  | _ => none

def parseCoins : List String → Option (Coins × List String)
  | k :: rest => do
    let k ← k.toNat?
    takePairs k rest
  | _ => none

def showBal (p : BalPool) : String :=
  "[" ++ ",".intercalate (p.assets.map fun a => s!"{a.denom}={a.amount}") ++ s!";T={p.totalShares}]"
def showSSP (p : SSPool) : String :=
  "[" ++ ",".intercalate (p.assets.map fun a => s!"{a.denom}={a.amount}") ++ s!";T={p.totalShares}]"

def showR {α : Type} (f : α → String) : R α → String
  | .ok a => "ok " ++ f a
  | .error .err => "err"
  | .error .panic => "panic"

def showI (x : Int) : String := toString x

def balOp (op : String) (p : BalPool) (rest : List String) : String :=
  match op, rest with
  | "bal.calcOut", spread :: rest =>
    match spread.toInt?, parseCoins rest with
    | some spread, some (cs, [dOut]) => showR showI (balCalcOut p cs dOut spread)
    | _, _ => "bad-op"
  | "bal.calcIn", spread :: rest =>
    match spread.toInt?, parseCoins rest with
    | some spread, some (cs, [dIn]) => showR showI (balCalcIn p cs dIn spread)
    | _, _ => "bad-op"
  | "bal.swapOut", spread :: rest =>
    match spread.toInt?, parseCoins rest with
    | some spread, some (cs, [dOut]) => showR (fun (x, q) => s!"{x} {showBal q}") (balSwapOut p cs dOut spread)
    | _, _ => "bad-op"
  | "bal.swapIn", spread :: rest =>
    match spread.toInt?, parseCoins rest with
    | some spread, some (cs, [dIn]) => showR (fun (x, q) => s!"{x} {showBal q}") (balSwapIn p cs dIn spread)
    | _, _ => "bad-op"
  | "bal.calcJoin", spread :: rest =>
    match spread.toInt?, parseCoins rest with
    | some spread, some (cs, []) => showR (fun (x, c) => s!"{x} {showCoins c}") (balCalcJoin p cs spread)
    | _, _ => "bad-op"
  | "bal.calcJoinNoSwap", rest =>
    match parseCoins rest with
    | some (cs, []) => showR (fun (x, c) => s!"{x} {showCoins c}") (balCalcJoinNoSwap p cs)
    | _ => "bad-op"
  | "bal.join", spread :: rest =>
    match spread.toInt?, parseCoins rest with
    | some spread, some (cs, []) => showR (fun (x, q) => s!"{x} {showBal q}") (balJoin p cs spread)
    | _, _ => "bad-op"
  | "bal.joinNoSwap", rest =>
    match parseCoins rest with
    | some (cs, []) => showR (fun (x, q) => s!"{x} {showBal q}") (balJoinNoSwap p cs)
    | _ => "bad-op"
  | "bal.calcExit", [shares, fee] =>
    match shares.toInt?, fee.toInt? with
    | some shares, some fee => showR showCoins (balCalcExit p shares fee)
    | _, _ => "bad-op"
  | "bal.exit", [shares, fee] =>
    match shares.toInt?, fee.toInt? with
    | some shares, some fee => showR (fun (c, q) => s!"{showCoins c} {showBal q}") (balExit p shares fee)
    | _, _ => "bad-op"
  | "bal.tokenInShareOut", [spread, d, shares] =>
    match spread.toInt?, shares.toInt? with
    | some spread, some shares => showR showI (balTokenInShareOut p d shares spread)
    | _, _ => "bad-op"
  | "bal.joinSwapShareOut", [spread, d, shares] =>
    match spread.toInt?, shares.toInt? with
    | some spread, some shares => showR (fun (x, q) => s!"{x} {showBal q}") (balJoinSwapShareOut p d shares spread)
    | _, _ => "bad-op"
  | "bal.exitSwapOut", [d, amt, maxShares] =>
    match amt.toInt?, maxShares.toInt? with
    | some amt, some maxShares => showR (fun (x, q) => s!"{x} {showBal q}") (balExitSwapOut p d amt maxShares)
    | _, _ => "bad-op"
  | _, _ => "bad-op"

def ssOp (op : String) (p : SSPool) (rest : List String) : String :=
  match op, rest with
  | "ss.calcOut", spread :: rest =>
    match spread.toInt?, parseCoins rest with
    | some spread, some (cs, [dOut]) => showR showI (ssCalcOut p cs dOut spread)
    | _, _ => "bad-op"
  | "ss.calcIn", spread :: rest =>
    match spread.toInt?, parseCoins rest with
    | some spread, some (cs, [dIn]) => showR showI (ssCalcIn p cs dIn spread)
    | _, _ => "bad-op"
  | "ss.swapOut", spread :: rest =>
    match spread.toInt?, parseCoins rest with
    | some spread, some (cs, [dOut]) => showR (fun (x, q) => s!"{x} {showSSP q}") (ssSwapOut p cs dOut spread)
    | _, _ => "bad-op"
  | "ss.swapIn", spread :: rest =>
    match spread.toInt?, parseCoins rest with
    | some spread, some (cs, [dIn]) => showR (fun (x, q) => s!"{x} {showSSP q}") (ssSwapIn p cs dIn spread)
    | _, _ => "bad-op"
  | "ss.calcJoin", spread :: rest =>
    match spread.toInt?, parseCoins rest with
    | some spread, some (cs, []) => showR (fun (x, c, _) => s!"{x} {showCoins c}") (ssJoinInternal p cs spread)
    | _, _ => "bad-op"
  | "ss.join", spread :: rest =>
    match spread.toInt?, parseCoins rest with
    | some spread, some (cs, []) => showR (fun (x, _, q) => s!"{x} {showSSP q}") (ssJoinInternal p cs spread)
    | _, _ => "bad-op"
  | "ss.calcJoinNoSwap", rest =>
    match parseCoins rest with
    | some (cs, []) => showR (fun (x, c) => s!"{x} {showCoins c}") (ssCalcJoinNoSwap p cs)
    | _ => "bad-op"
  | "ss.joinNoSwap", rest =>
    match parseCoins rest with
    | some (cs, []) => showR (fun (x, q) => s!"{x} {showSSP q}") (ssJoinNoSwap p cs)
    | _ => "bad-op"
  | "ss.calcExit", [shares, fee] =>
    match shares.toInt?, fee.toInt? with
    | some shares, some fee => showR showCoins (ssCalcExit p shares fee)
    | _, _ => "bad-op"
  | "ss.exit", [shares, fee] =>
    match shares.toInt?, fee.toInt? with
    | some shares, some fee => showR (fun (c, q) => s!"{showCoins c} {showSSP q}") (ssExit p shares fee)
    | _, _ => "bad-op"
  | _, _ => "bad-op"

/-- low-level ops on raw numbers (tie the unexported kernels directly). -/
def rawOp (op : String) (args : List String) : String :=
  match op, args.mapM String.toInt? with
  | "raw.solveCFI", some [a, b, c, d, e] => showOpt (solveCFI a b c d e)
  | "raw.sharesOutSingleIn", some [a, b, c, d, e] => showOpt (sharesOutGivenSingleIn a b c d e)
  | "raw.singleInSharesOut", some [a, b, c, d, e] => showOpt (singleInGivenSharesOut a b c d e)
  | "raw.sharesInSingleOut", some [a, b, c, d, e, f] => showOpt (sharesInGivenSingleOut a b c d e f)
  | "raw.cfmm", some [x, y, w] => showOpt (cfmmNoV x y w)
  | "raw.targetK", some [x, y, w, yf] => showOpt (targetK x y w yf)
  | "raw.iterK", some [x, w, yf, xf] => showOpt ((iterK x w yf).bind fun f => f xf)
  | "raw.solve", some [x, y, w, yIn] => showOpt (solveCfmmMulti x y w yIn)
  | "raw.divU64", some [i, u, dir] => showR showI (divIntByU64 i u dir.toNat)
  | _, _ => "bad-op"

def stepGammMath (op : String) (args : List String) : String :=
  if op.startsWith "bal." then
    match parseBal args with
    | some (p, rest) => balOp op p rest
    | none => "bad-op"
  else if op.startsWith "ss." then
    match parseSS args with
    | some (p, rest) => ssOp op p rest
    | none => "bad-op"
  else rawOp op args

end OsmoVerif.GammMath
