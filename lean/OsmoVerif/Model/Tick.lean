/-
Model of x/concentrated-liquidity/math/tick.go + precompute.go: tick ↔ price ↔ sqrt price.
Prices/sqrt prices are raw BigDec (10^36) `Int`s; ticks are `Int` (Go int64, never near overflow
because every entry point range-checks first).  Errors are `none`.  Core only.
-/
import OsmoVerif.Model.Math
import OsmoVerif.Gen.CL

namespace OsmoVerif.Tick
open OsmoVerif.Num OsmoVerif.MathM OsmoVerif.Gen

/-- `geometricExponentIncrementDistanceInTicks = 9 · 10^(-ExponentAtPriceOne)`. -/
def geoDist : Int := 9 * 10 ^ (-CL.ExponentAtPriceOne).toNat

/-- `powTenBigDec`: tables `bigPowersOfTen[0..308]`, `bigNegPowersOfTen[0..36]`; an index outside
the table is a Go index-out-of-range panic. -/
def powTenBigDec (e : Int) : Option Int :=
  if 0 ≤ e then (if e ≤ 308 then some (10 ^ e.toNat * P36) else none)
  else (if -e ≤ 36 then some (10 ^ (36 - (-e).toNat)) else none)

/-- `TickToAdditiveGeometricIndices` (Go `/` on int64 truncates). -/
def tickToAdditiveGeometric (t : Int) : Option (Int × Int) :=
  if t = 0 then some (0, 0)
  else if t = CL.MinInitializedTickV2 ∨ t = CL.MinCurrentTickV2 then some (0, -30)
  else if t < CL.MinCurrentTickV2 then none
  else if t > CL.MaxTick then none
  else
    let g := t.tdiv geoDist
    some (t - g * geoDist, g)

def tickToPrice (t : Int) : Option Int :=
  if t = 0 then some P36
  else if t = CL.MinInitializedTickV2 ∨ t = CL.MinCurrentTickV2 then some CL.MinSpotPriceV2
  else do
    let (add, g) ← tickToAdditiveGeometric t
    let e0 := CL.ExponentAtPriceOne + g
    let e := if t < 0 then e0 - 1 else e0
    let unscaled : Int := (if t < 0 then 10000000 else 1000000) + add
    let p10 ← powTenBigDec e
    let price ← BigDec.mulInt p10 unscaled
    if price > CL.MaxSpotPriceBigDec ∨ price < CL.MinSpotPriceV2 then none else some price

def tickToSqrtPrice (t : Int) : Option Int := do
  let price ← tickToPrice t
  if t ≥ CL.MinInitializedTick then do
    let d ← BigDec.dec price
    let s ← monotonicSqrt d
    BigDec.fromDec s
  else monotonicSqrtBigDec price

/-- `tickExpCache[index]` as a function: (initialPrice, maxPrice, additiveIncrementPerTick, initialTick);
built for indices -30 … 37 only (a missing entry is a nil dereference = panic). -/
def tickExp (i : Int) : Option (Int × Int × Int × Int) :=
  if 0 ≤ i then
    if i ≤ 37 then (powTenBigDec (CL.ExponentAtPriceOne + i)).map fun inc =>
      (10 ^ i.toNat * P36, 10 ^ (i.toNat + 1) * P36, inc, geoDist * i)
    else none
  else if -30 ≤ i then do
    let ip ← powTenBigDec i
    let mp ← powTenBigDec (i + 1)
    let inc ← powTenBigDec (CL.ExponentAtPriceOne + i)
    some (ip, mp, inc, geoDist * i)
  else none

def findGeoUp : Nat → Int → Int → Option (Int × Int × Int × Int)
  | 0, _, _ => none
  | f + 1, price, i => (tickExp i).bind fun d => if d.2.1 < price then findGeoUp f price (i + 1) else some d

def findGeoDown : Nat → Int → Int → Option (Int × Int × Int × Int)
  | 0, _, _ => none
  | f + 1, price, i => (tickExp i).bind fun d => if d.1 > price then findGeoDown f price (i - 1) else some d

def calculatePriceToTick (price0 : Int) : Option Int :=
  if price0 < 0 then none
  else if price0 > CL.MaxSpotPriceBigDec ∨ price0 < CL.MinSpotPriceV2 then none
  else if price0 = P36 then some 0
  else do
    let price ← if price0 ≥ CL.MinSpotPriceBigDec then BigDec.chopPrecision price0 Osmomath.DecPrecision else some price0
    let geo ← if price > P36 then findGeoUp 64 price 0 else findGeoDown 64 price (-1)
    let (initialPrice, _, inc, initialTick) := geo
    let inThis ← BigDec.sub price initialPrice
    let filled ← BigDec.quo inThis inc
    let ti := filled.tdiv P36                     -- TruncateInt64
    if ti.natAbs < 2 ^ 63 then some (ti + initialTick) else none

def calculateSqrtPriceToTick (sp : Int) : Option Int := do
  let price ← BigDec.mul sp sp
  let tick0 ← calculatePriceToTick price
  if tick0 < CL.MinCurrentTick then none else
  let (tick, oob) :=
    if tick0 ≤ CL.MinInitializedTickV2 then (CL.MinInitializedTickV2 + 1, true)
    else if tick0 ≥ CL.MaxTick - 1 then (CL.MaxTick - 2, true)
    else (tick0, false)
  let sp1 ← tickToSqrtPrice (tick + 1)
  if sp ≥ sp1 then do
    let sp2 ← tickToSqrtPrice (tick + 2)
    if (!oob && sp ≥ sp2) || (oob && sp > sp2) then none
    else if sp = sp2 then some (tick + 2)
    else some (tick + 1)
  else do
    let sp0 ← tickToSqrtPrice tick
    if sp ≥ sp0 then some tick
    else do
      let spm ← tickToSqrtPrice (tick - 1)
      if sp < spm then none else some (tick - 1)

/-- `RoundDownTickToSpacing` (Go `%` truncates; the code then makes it Euclidean). -/
def roundDownTickToSpacing (t spacing : Int) : Option Int :=
  if spacing = 0 then none else
  let m0 := t.tmod spacing
  let m := if m0 < 0 then m0 + spacing else m0
  let t' := if m ≠ 0 then t - m else t
  if t' > CL.MaxTick ∨ t' < CL.MinInitializedTickV2 then none else some t'

def sqrtPriceToTickRoundDownSpacing (sp spacing : Int) : Option Int :=
  (calculateSqrtPriceToTick sp).bind fun t => roundDownTickToSpacing t spacing

end OsmoVerif.Tick
