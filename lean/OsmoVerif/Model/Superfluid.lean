/-
Model of x/superfluid's own bookkeeping (stake.go, epoch.go, intermediary_account.go,
synthetic_lock_wrapper.go, twap_price.go, superfluid_asset.go, hooks.go) together with the part of
x/lockup it drives (lock.go: CreateLock, AddTokensToLockByID, BeginUnlock, BeginForceUnlock/beginUnlock,
SplitLock, UnlockMaturedLock; synthetic_lock.go; abci.go EndBlocker).  Core only.

What is modelled
* locks (`Coins[0]` = `(denom, amount)`, `single` = `len(Coins) = 1`, duration, end time; `none` end time
  = Go's zero time = not unlocking), the last lock id;
* synthetic locks: per underlying lock id the list the prefix iterator of
  `GetSyntheticLockupByUnderlyingLockId` would return; a synthetic denom `<denom>/superbonding/<val>` /
  `<denom>/superunbonding/<val>` is the pair `(kind, (denom, val))`;
* the accumulation store of every synthetic denom as an association list duration ↦ amount with the
  code's `Increase`/`Decrease` (note `CreateSyntheticLockup` increases at the synthetic duration while
  `DeleteSyntheticLockup` decreases at the UNDERLYING lock's duration) and the query
  `GetPeriodLocksAccumulation(ByDuration, denom, unbondingTime)` = Σ entries with duration ≥ unbonding time;
* intermediary accounts keyed by `(denom, validator)` with their gauge id, lock ↔ account connections,
  osmo-equivalent multipliers (raw 18-decimal `Dec`), the superfluid asset list, `MinimumRiskFactor`;
* bank: total supply of the bond denom and its supply offset (`MintCoins`/`BurnCoins`/`AddSupplyOffset`);
* staking: a ledger `deleg (denom, val) : Option Int` = the intermediary account's delegation to its
  validator at exchange rate 1 (`none` = no delegation object; `Unbond` removes the object at zero shares).

Outside the model (see Props/C11.lean header): validator shares at an exchange rate ≠ 1, slashing, jailed /
unbonding validators, staking rewards and their move to gauges, gauge distribution, the native-denom
accumulation store and lock reference indexes of x/lockup (C06), concentrated-liquidity specific entry
points (`CreateFullRangePositionAndSuperfluidDelegate`, migration, unpool, `UnbondConvertAndStake`).

Every keeper error is an `Err` constructor (the message server's caller discards all state changes of the
call); `Err.panic` is a Go panic (overflow of an sdk `Int`/`Dec`, nil `Int` use); `Err.unmodelled` marks an
argument shape the model deliberately does not cover (never issued by the engine; it would show up as a
divergence, not be silently accepted).
-/
import OsmoVerif.Model.Num

namespace OsmoVerif.Superfluid
open OsmoVerif.Num

/-- `(denom index, validator index)`: an intermediary account / the suffix of a synthetic denom. -/
abbrev AccKey := Nat × Nat

inductive SKind | bonding | unbonding
  deriving DecidableEq, Repr

inductive Err
  | nolock | notowner | multicoin | notasset | unlocking | duration | already | notsf | bonded | zero
  | noval | synth | notmature | other | panic | unmodelled
  deriving DecidableEq, Repr

def Err.toString : Err → String
  | .nolock => "nolock" | .notowner => "notowner" | .multicoin => "multicoin" | .notasset => "notasset"
  | .unlocking => "unlocking" | .duration => "duration" | .already => "already" | .notsf => "notsf"
  | .bonded => "bonded" | .zero => "zero" | .noval => "noval" | .synth => "synth" | .notmature => "notmature"
  | .other => "other" | .panic => "panic" | .unmodelled => "unmodelled"

structure Synth where
  kind : SKind
  key : AccKey
  endTime : Option Int     -- none = zero time (bonding marker)
  duration : Int
  deriving DecidableEq, Repr

structure Lock where
  owner : Nat
  denom : Nat              -- Coins[0].Denom
  amount : Int             -- Coins[0].Amount
  single : Bool            -- len(Coins) = 1
  duration : Int
  endTime : Option Int     -- none = zero time = not unlocking
  deriving DecidableEq, Repr

structure State where
  now : Int                        -- block time (seconds on the engine's clock)
  unbondingTime : Int              -- staking params
  riskFactor : Int                 -- MinimumRiskFactor, raw Dec
  validators : List Nat
  assets : List Nat                -- superfluid asset denoms
  mult : Nat → Int                 -- osmo equivalent multiplier, raw Dec, 0 if unset
  locks : Nat → Option Lock
  lastLockId : Nat
  synths : Nat → List Synth
  conns : Nat → Option AccKey
  accs : List (AccKey × Nat)       -- intermediary accounts with gauge id
  lastGauge : Nat
  accum : SKind × AccKey → List (Int × Int)
  deleg : AccKey → Option Int
  supply : Int
  offset : Int

def upd {β : Type} (f : Nat → β) (k : Nat) (v : β) : Nat → β := fun x => if x = k then v else f x
def updK {α β : Type} [DecidableEq α] (f : α → β) (k : α) (v : β) : α → β := fun x => if x = k then v else f x

/-! ## accumulation store of one synthetic denom -/

/-- `Increase(accumulationKey(d), a)` (`Decrease` = negative `a`; a missing leaf counts as zero). -/
def accAdd : List (Int × Int) → Int → Int → List (Int × Int)
  | [], d, a => [(d, a)]
  | (k, v) :: r, d, a => if k = d then (k, v + a) :: r else (k, v) :: accAdd r d a

/-- `SubsetAccumulation(accumulationKey(u), nil)`: everything locked for at least `u`. -/
def accFrom : List (Int × Int) → Int → Int
  | [], _ => 0
  | (k, v) :: r, u => (if u ≤ k then v else 0) + accFrom r u

/-! ## osmo value of an amount of shares (twap_price.go, superfluid_asset.go) -/

/-- `GetRiskAdjustedOsmoValue`: `amount.Sub(amount.ToLegacyDec().Mul(minRiskFactor).RoundInt())`. -/
def riskAdjusted (rf amount : Int) : Except Err Int :=
  match Dec.mul (amount * P18) rf with
  | none => .error .panic
  | some m =>
    match Dec.roundInt m with
    | none => .error .panic
    | some r =>
      match chkInt (amount - r) with
      | none => .error .panic
      | some v => .ok v

/-- `GetSuperfluidOSMOTokens(denom, amount)`. -/
def osmoTokens (s : State) (denom : Nat) (amount : Int) : Except Err Int :=
  if s.mult denom = 0 then .ok 0 else
  match Dec.mul (s.mult denom) (amount * P18) with
  | none => .error .panic
  | some d =>
    if denom ∉ s.assets then .error .notasset else
    match Dec.roundInt d with
    | none => .error .panic
    | some r => riskAdjusted s.riskFactor r

/-! ## staking ledger and bank (stake.go `mintOsmoTokensAndDelegate`, `forceUndelegateAndBurnOsmoTokens`) -/

def delegated (s : State) (key : AccKey) : Int :=
  match s.deleg key with
  | some x => x
  | none => 0

/-- mint `amount`, offset it, send it to the intermediary account, delegate it. -/
def mintAndDelegate (s : State) (amount : Int) (key : AccKey) : Except Err State :=
  if key.2 ∉ s.validators then .error .noval else
  if amount ≤ 0 then .error .other else      -- MintCoins rejects a zero coin (NewCoin panics below zero, recovered)
  .ok { s with supply := s.supply + amount, offset := s.offset - amount,
               deleg := updK s.deleg key (some (delegated s key + amount)) }

/-- `ValidateUnbondAmount` + `InstantUndelegate` + send to module + burn + offset. -/
def forceUndelegateAndBurn (s : State) (amount : Int) (key : AccKey) : Except Err State :=
  if key.2 ∉ s.validators then .error .other else
  match s.deleg key with
  | none => .ok s                                -- ErrNoDelegation ⇒ nil
  | some sh =>
    if amount < 0 then .error .unmodelled else
    if amount > sh then .error .other else       -- "invalid shares amount"
    .ok { s with deleg := updK s.deleg key (if sh - amount = 0 then none else some (sh - amount)),
                 supply := s.supply - amount, offset := s.offset + amount }

/-! ## intermediary accounts -/

def findAcc (accs : List (AccKey × Nat)) (k : AccKey) : Option Nat :=
  match accs with
  | [] => none
  | (k', g) :: r => if k' = k then some g else findAcc r k

/-- `GetOrCreateIntermediaryAccount`: a new account gets a fresh perpetual gauge. -/
def getOrCreateAcc (s : State) (key : AccKey) : State :=
  match findAcc s.accs key with
  | some _ => s
  | none => { s with accs := s.accs ++ [(key, s.lastGauge + 1)], lastGauge := s.lastGauge + 1 }

/-! ## synthetic locks (lockup/keeper/synthetic_lock.go) -/

def synthMatch (kind : SKind) (key : AccKey) (x : Synth) : Bool := x.kind = kind ∧ x.key = key

/-- `CreateSyntheticLockup(lockID, synthDenom, unbondingTime, isUnlocking)`. -/
def createSynth (s : State) (id : Nat) (kind : SKind) (key : AccKey) : Except Err State :=
  match s.synths id with
  | _ :: _ => .error .other     -- already exists (one) / "should not exist" (several)
  | [] =>
    match s.locks id with
    | none => .error .nolock
    | some l =>
      if kind = .unbonding ∧ s.unbondingTime > l.duration then .error .other else
      if l.single = false then .error .other else
      .ok { s with
        synths := upd s.synths id
          [{ kind := kind, key := key,
             endTime := if kind = .unbonding then some (s.now + s.unbondingTime) else none,
             duration := s.unbondingTime }],
        accum := updK s.accum (kind, key) (accAdd (s.accum (kind, key)) s.unbondingTime l.amount) }

/-- `DeleteSyntheticLockup(lockID, synthdenom)`. -/
def deleteSynth (s : State) (id : Nat) (kind : SKind) (key : AccKey) : Except Err State :=
  match (s.synths id).find? (synthMatch kind key) with
  | none => .error .other
  | some _ =>
    match s.locks id with
    | none => .error .nolock
    | some l =>
      if l.single = false then .error .other else
      .ok { s with
        synths := upd s.synths id ((s.synths id).filter (fun x => !synthMatch kind key x)),
        accum := updK s.accum (kind, key) (accAdd (s.accum (kind, key)) l.duration (-l.amount)) }

/-! ## lockup entry points -/

/-- `CreateLock` (the engine funds the owner first). -/
def createLock (s : State) (owner denom : Nat) (amount duration : Int) (single : Bool) : Except Err (State × Nat) :=
  if amount ≤ 0 then .error .unmodelled else
  .ok ({ s with locks := upd s.locks (s.lastLockId + 1)
                  (some { owner := owner, denom := denom, amount := amount, single := single, duration := duration, endTime := none }),
                lastLockId := s.lastLockId + 1 }, s.lastLockId + 1)

/-- `beginUnlock(lock, coins)`; `coins = none` is `sdk.Coins{}` (everything). Returns the id of the
lock that is now unlocking (a new one when the lock was split). -/
def beginUnlock (s : State) (id : Nat) (coins : Option Int) : Except Err (State × Nat) :=
  match s.locks id with
  | none => .error .nolock
  | some l =>
    match coins with
    | none =>
      if l.endTime.isSome then .error .other else
      .ok ({ s with locks := upd s.locks id (some { l with endTime := some (s.now + l.duration) }) }, id)
    | some a =>
      if l.single = false then .error .unmodelled else
      if a ≤ 0 then .error .unmodelled else
      if a > l.amount then .error .other else
      if l.endTime.isSome then .error .other else
      if a = l.amount then
        .ok ({ s with locks := upd s.locks id (some { l with endTime := some (s.now + l.duration) }) }, id)
      else
        -- SplitLock: the old lock keeps the rest, the new lock takes `a` and starts unlocking
        let nid := s.lastLockId + 1
        .ok ({ s with
          locks := upd (upd s.locks id (some { l with amount := l.amount - a })) nid
                    (some { l with amount := a, endTime := some (s.now + l.duration) }),
          lastLockId := nid }, nid)

/-- msg server `BeginUnlocking` → `BeginUnlock`: refused while any synthetic lock exists. -/
def msgBeginUnlocking (s : State) (sender id : Nat) (coins : Option Int) : Except Err (State × Nat) :=
  match s.locks id with
  | none => .error .nolock
  | some l =>
    if l.owner ≠ sender then .error .notowner else
    match s.synths id with
    | _ :: _ => .error .synth
    | [] => beginUnlock s id coins

/-- `UnlockMaturedLock`. -/
def unlockMatured (s : State) (id : Nat) : Except Err State :=
  match s.locks id with
  | none => .error .nolock
  | some l =>
    match l.endTime with
    | none => .error .other
    | some e =>
      if s.now < e then .error .notmature else
      .ok { s with locks := upd s.locks id none }

/-! ## superfluid entry points (stake.go) -/

/-- `alreadySuperfluidStaking`: an error of the synthetic lookup (several markers) counts as "no". -/
def alreadyStaking (s : State) (id : Nat) : Bool :=
  match s.conns id with
  | some _ => true
  | none =>
    match s.synths id with
    | [_] => true
    | _ => false

def superfluidDelegate (s : State) (sender id val : Nat) : Except Err State :=
  match s.locks id with
  | none => .error .nolock
  | some l =>
    if l.owner ≠ sender then .error .notowner else
    if l.single = false then .error .multicoin else
    if l.denom ∉ s.assets then .error .notasset else
    if l.endTime.isSome then .error .unlocking else
    if l.duration < s.unbondingTime then .error .duration else
    if alreadyStaking s id then .error .already else
    let key : AccKey := (l.denom, val)
    let s1 := getOrCreateAcc s key
    let s2 := { s1 with conns := upd s1.conns id (some key) }
    match createSynth s2 id .bonding key with
    | .error e => .error e
    | .ok s3 =>
      match osmoTokens s3 l.denom l.amount with
      | .error e => .error e
      | .ok amt =>
        if amt = 0 then .error .zero else
        mintAndDelegate s3 amt key

/-- `undelegateCommon`. -/
def undelegateCommon (s : State) (sender id : Nat) : Except Err (State × AccKey) :=
  match s.locks id with
  | none => .error .nolock
  | some l =>
    if l.owner ≠ sender then .error .notowner else
    if l.single = false then .error .multicoin else
    match s.conns id with
    | none => .error .notsf
    | some key =>
      let s1 := { s with conns := upd s.conns id none }
      match deleteSynth s1 id .bonding (l.denom, key.2) with
      | .error e => .error e
      | .ok s2 =>
        match osmoTokens s2 key.1 l.amount with
        | .error e => .error e
        | .ok amt =>
          match forceUndelegateAndBurn s2 amt key with
          | .error e => .error e
          | .ok s3 => .ok (s3, key)

def superfluidUndelegate (s : State) (sender id : Nat) : Except Err State :=
  match undelegateCommon s sender id with
  | .error e => .error e
  | .ok (s1, key) => createSynth s1 id .unbonding key

/-- `unbondLock`. -/
def unbondLock (s : State) (id sender : Nat) (coins : Option Int) : Except Err (State × Nat) :=
  match s.locks id with
  | none => .error .nolock
  | some l =>
    if l.owner ≠ sender then .error .notowner else
    if l.single = false then .error .multicoin else
    match s.synths id with
    | _ :: _ :: _ => .error .other
    | [] => .error .notsf
    | [sy] =>
      if sy.endTime.isNone then .error .bonded else
      beginUnlock s id coins

def superfluidUnbondLock (s : State) (id sender : Nat) : Except Err State :=
  match unbondLock s id sender none with
  | .error e => .error e
  | .ok (s1, _) => .ok s1

def superfluidUndelegateAndUnbondLock (s : State) (id sender : Nat) (amount : Int) : Except Err (State × Nat) :=
  match s.locks id with
  | none => .error .nolock
  | some l =>
    if amount < 0 then .error .unmodelled else    -- sdk.NewCoin panics; ValidateBasic rejects it before
    if amount = 0 then .error .other else
    if l.amount < amount then .error .other else
    match s.conns id with
    | none => .error .notsf
    | some key =>
      match superfluidUndelegate s sender id with
      | .error e => .error e
      | .ok s1 =>
        match unbondLock s1 id sender (some amount) with
        | .error e => .error e
        | .ok (s2, nid) =>
          if l.amount = amount then
            if nid ≠ id then .error .panic else .ok (s2, id)
          else
            if nid = id then .error .panic else
            match deleteSynth s2 id .unbonding (l.denom, key.2) with
            | .error e => .error e
            | .ok s3 =>
              match superfluidDelegate s3 sender id key.2 with
              | .error e => .error e
              | .ok s4 =>
                match createSynth s4 nid .unbonding key with
                | .error e => .error e
                | .ok s5 => .ok (s5, nid)

/-- hooks.go `AfterAddTokensToLock` → `IncreaseSuperfluidDelegation`; errors are logged, not returned. -/
def increaseHook (s : State) (id : Nat) (lockDenom : Nat) (amount : Int) : Except Err State :=
  match s.conns id with
  | none => .ok s
  | some key =>
    match findAcc s.accs key with
    | none => .ok s      -- empty account record: its denom "" has multiplier zero
    | some _ =>
      match osmoTokens s key.1 (if key.1 = lockDenom then amount else 0) with
      | .error .panic => .error .panic
      | .error _ => .ok s
      | .ok amt =>
        if amt = 0 then .ok s else
        match mintAndDelegate s amt key with
        | .error .panic => .error .panic
        | .error _ => .ok s
        | .ok s' => .ok s'

/-- `AddTokensToLockByID` (the engine funds the owner first). -/
def addTokensToLock (s : State) (sender id : Nat) (amount : Int) : Except Err State :=
  match s.locks id with
  | none => .error .nolock
  | some l =>
    if l.owner ≠ sender then .error .notowner else
    if l.single = false then .error .unmodelled else
    if amount ≤ 0 then .error .unmodelled else
    let s1 := { s with locks := upd s.locks id (some { l with amount := l.amount + amount }) }
    match s1.synths id with
    | _ :: _ :: _ => .error .other
    | [] => increaseHook s1 id l.denom amount      -- (the stray Increase on denom "" is not modelled)
    | [sy] =>
      let s2 : State := { s1 with accum := updK s1.accum (sy.kind, sy.key) (accAdd (s1.accum (sy.kind, sy.key)) sy.duration amount) }
      increaseHook s2 id l.denom amount

/-! ## lockup EndBlocker: delete matured synthetic locks, then withdraw matured locks -/

def isMatured (now : Int) (x : Synth) : Bool :=
  match x.endTime with
  | some e => e ≤ now
  | none => false

/-- delete the given markers of lock `id` (a failure panics, as in `DeleteAllMaturedSyntheticLocks`). -/
def deleteSynths (s : State) (id : Nat) : List Synth → Except Err State
  | [] => .ok s
  | x :: r =>
    match deleteSynth s id x.kind x.key with
    | .error _ => .error .panic
    | .ok s1 => deleteSynths s1 id r

/-- `DeleteAllMaturedSyntheticLocks` over lock ids `1..n`. -/
def sweepSynths (s : State) : Nat → Except Err State
  | 0 => .ok s
  | n + 1 =>
    match sweepSynths s n with
    | .error e => .error e
    | .ok s1 => deleteSynths s1 (n + 1) ((s1.synths (n + 1)).filter (isMatured s1.now))

/-- `WithdrawMaturedLocks` over lock ids `1..n`. -/
def sweepLocks (s : State) : Nat → Except Err State
  | 0 => .ok s
  | n + 1 =>
    match sweepLocks s n with
    | .error e => .error e
    | .ok s1 =>
      match s1.locks (n + 1) with
      | none => .ok s1
      | some l =>
        match l.endTime with
        | none => .ok s1
        | some e =>
          if e ≤ s1.now then
            match unlockMatured s1 (n + 1) with
            | .error _ => .error .panic
            | .ok s2 => .ok s2
          else .ok s1

def endBlock (s : State) : Except Err State :=
  match sweepSynths s s.lastLockId with
  | .error e => .error e
  | .ok s1 => sweepLocks s1 s1.lastLockId

/-- the engine's `withdraw id`: matured markers are deleted first (EndBlocker order), then
`UnlockMaturedLock(id)`. -/
def withdraw (s : State) (id : Nat) : Except Err State :=
  match sweepSynths s s.lastLockId with
  | .error e => .error e
  | .ok s1 => unlockMatured s1 id

/-! ## epoch (epoch.go `AfterEpochStartBeginBlock`) -/

/-- `UpdateOsmoEquivalentMultipliers` for every asset: `(denom, OSMO backing, raw Dec of the share supply
(classic pool) / of the full-range liquidity (concentrated pool), is concentrated)`.  Returns `false` when the
loop returned early (classic pool without OSMO: the asset is unwound and the refresh is skipped).  The
concentrated branch runs inside `ApplyFuncIfNoError`: any error or panic there leaves everything unchanged. -/
def updateMults (s : State) : List (Nat × Int × Int × Bool) → Except Err (State × Bool)
  | [] => .ok (s, true)
  | (d, osmo, q, cl) :: r =>
    if d ∉ s.assets then .error .unmodelled else
    if osmo < 0 ∨ q < 0 then .error .unmodelled else     -- readings of coin amounts / share supplies
    if cl then
      if osmo = 0 then updateMults s r else
      match Dec.quo (osmo * P18) q with
      | none => updateMults s r
      | some m => updateMults { s with mult := upd s.mult d m } r
    else
      if osmo = 0 then
        .ok ({ s with mult := upd s.mult d 0, assets := List.filter (fun x => decide (x ≠ d)) s.assets }, false)
      else
        match Dec.quo (osmo * P18) q with
        | none => .error .panic
        | some m => updateMults { s with mult := upd s.mult d m } r

/-- `GetExpectedDelegationAmount`. -/
def expectedDelegation (s : State) (key : AccKey) : Except Err Int :=
  osmoTokens s key.1 (accFrom (s.accum (.bonding, key)) s.unbondingTime)

/-- one iteration of `RefreshIntermediaryDelegationAmounts`. -/
def refreshOne (s : State) (key : AccKey) : Except Err State :=
  if key.2 ∉ s.validators then .ok s else
  match expectedDelegation s key with
  | .error _ => .error .panic          -- a nil Int is compared
  | .ok refreshed =>
    if refreshed > delegated s key then
      match mintAndDelegate s (refreshed - delegated s key) key with
      | .error .panic => .error .panic
      | .error _ => .ok s
      | .ok s' => .ok s'
    else if delegated s key > refreshed then
      match forceUndelegateAndBurn s (delegated s key - refreshed) key with
      | .error .panic => .error .panic
      | .error _ => .ok s
      | .ok s' => .ok s'
    else .ok s

def refreshAll (s : State) : List (AccKey × Nat) → Except Err State
  | [] => .ok s
  | (k, _) :: r =>
    match refreshOne s k with
    | .error e => .error e
    | .ok s1 => refreshAll s1 r

def epoch (s : State) (ups : List (Nat × Int × Int × Bool)) : Except Err State :=
  match updateMults s ups with
  | .error e => .error e
  | .ok (s1, false) => .ok s1
  | .ok (s1, true) => refreshAll s1 s.accs

def advance (s : State) (dt : Int) : Except Err State :=
  if dt < 0 then .error .unmodelled else .ok { s with now := s.now + dt }

/-! ## histories -/

inductive Op
  | lock (owner denom : Nat) (amount duration : Int) (single : Bool)
  | addToLock (sender id : Nat) (amount : Int)
  | delegate (sender id val : Nat)
  | undelegate (sender id : Nat)
  | unbond (sender id : Nat)
  | undelegateAndUnbond (sender id : Nat) (amount : Int)
  | beginUnlock (sender id : Nat) (coins : Option Int)
  | withdraw (id : Nat)
  | endBlock
  | advance (dt : Int)
  | epoch (ups : List (Nat × Int × Int × Bool))

/-- one message / hook call; the second component is the lock id some calls return. -/
def applyOpId (s : State) : Op → Except Err (State × Option Nat)
  | .lock o d a du sg => (createLock s o d a du sg).map fun r => (r.1, some r.2)
  | .addToLock snd id a => (addTokensToLock s snd id a).map fun r => (r, none)
  | .delegate snd id v => (superfluidDelegate s snd id v).map fun r => (r, none)
  | .undelegate snd id => (superfluidUndelegate s snd id).map fun r => (r, none)
  | .unbond snd id => (superfluidUnbondLock s id snd).map fun r => (r, none)
  | .undelegateAndUnbond snd id a => (superfluidUndelegateAndUnbondLock s id snd a).map fun r => (r.1, some r.2)
  | .beginUnlock snd id c => (msgBeginUnlocking s snd id c).map fun r => (r.1, some r.2)
  | .withdraw id => (withdraw s id).map fun r => (r, none)
  | .endBlock => (endBlock s).map fun r => (r, none)
  | .advance dt => (advance s dt).map fun r => (r, none)
  | .epoch ups => (epoch s ups).map fun r => (r, none)

def applyOp (s : State) (op : Op) : Except Err State := (applyOpId s op).map (·.1)

/-- a failed call leaves the state as it was (the caller's cache context is discarded). -/
def step (s : State) (op : Op) : State :=
  match applyOp s op with
  | .ok s' => s'
  | .error _ => s

def run (s : State) (ops : List Op) : State := ops.foldl step s

end OsmoVerif.Superfluid
