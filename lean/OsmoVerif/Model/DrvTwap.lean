/- line protocol for the `twap` engine (property C10).  State: the two stores of ONE (pool, pair).
Times are nanoseconds since the Unix epoch, prices/accumulators raw `Dec`s.

  reset                                  -> ok
  create <tNs> <height> <sp0> <sp1> <err01>   -> ok <record>
  update <tNs> <height> <sp0> <sp1> <err01>   -> ok <record> | err | panic
  prune <lastKeptNs>                     -> ok <number of records left>
  arith|geom <nowNs> <startNs> <endNs> <quoteIsAsset0 01>  -> ok <value> <flag01> | err | panic
  spot <q0> <q1> <prevErrNs> <nowNs> -> <sp0> <sp1> <latestErrNs> | panic   (getSpotPrices; q = raw BigDec | e | nil | E<raw>)
  dump                                   -> <recent>|<record>;<record>;…
  exportimport                           -> ok | panic   (panic = Validate rejects an exported record; state unchanged)
-/
import OsmoVerif.Model.Twap
import OsmoVerif.Model.TwapGenesis
namespace OsmoVerif.Twap

structure DrvState where
  s : Store := {}

def initTwap : DrvState := {}

def showRec (r : TwapRecord) : String :=
  s!"{r.time} {r.height} {r.sp0} {r.sp1} {r.acc0} {r.acc1} {r.geom} {r.lastErr}"

def parseBool : String → Option Bool
  | "0" => some false
  | "1" => some true
  | _ => none

/-- `e` = empty value with an error, `nil` = empty value without, `E<raw>` = value with an error. -/
def parsePoolPrice (s : String) : Option PoolPrice :=
  if s = "e" then some ⟨none, true⟩
  else if s = "nil" then some ⟨none, false⟩
  else if s.startsWith "E" then (s.drop 1).toString.toInt?.map fun v => ⟨some v, true⟩
  else s.toInt?.map fun v => ⟨some v, false⟩

def showTwap : Res (Int × Bool) → String
  | .ok (v, f) => s!"ok {v} {if f then 1 else 0}"
  | .err => "err"
  | .panic => "panic"

def stepTwap (st : DrvState) (op : String) (args : List String) : DrvState × String :=
  match op, args with
  | "reset", [] => ({}, "ok")
  | "create", [t, h, sp0, sp1, e] =>
    match [t, h, sp0, sp1].mapM String.toInt?, parseBool e with
    | some [t, h, sp0, sp1], some e =>
      let s' := create st.s t h sp0 sp1 e
      ({ s := s' }, match s'.recent with | some r => "ok " ++ showRec r | none => "err")
    | _, _ => (st, "bad-op")
  | "update", [t, h, sp0, sp1, e] =>
    match [t, h, sp0, sp1].mapM String.toInt?, parseBool e with
    | some [t, h, sp0, sp1], some e =>
      match update st.s t h sp0 sp1 e with
      | .ok s' => ({ s := s' }, match s'.recent with | some r => "ok " ++ showRec r | none => "err")
      | .err => (st, "err")
      | .panic => (st, "panic")
    | _, _ => (st, "bad-op")
  | "prune", [k] =>
    match k.toInt? with
    | some k => let s' := prune st.s k; ({ s := s' }, s!"ok {s'.hist.length}")
    | none => (st, "bad-op")
  | "arith", [now, a, b, q] =>
    match [now, a, b].mapM String.toInt?, parseBool q with
    | some [now, a, b], some q => (st, showTwap (getTwap st.s now a b q .arithmetic))
    | _, _ => (st, "bad-op")
  | "geom", [now, a, b, q] =>
    match [now, a, b].mapM String.toInt?, parseBool q with
    | some [now, a, b], some q => (st, showTwap (getTwap st.s now a b q .geometric))
    | _, _ => (st, "bad-op")
  | "spot", [q0, q1, prev, now] =>
    match parsePoolPrice q0, parsePoolPrice q1, prev.toInt?, now.toInt? with
    | some q0, some q1, some prev, some now =>
      match getSpotPrices q0 q1 prev now with
      | some (a, b, e) => (st, s!"{a} {b} {e}")
      | none => (st, "panic")
    | _, _, _, _ => (st, "bad-op")
  -- real ExportGenesis (records of this pair), the pair's keys wiped, real InitGenesis (Model/TwapGenesis.lean)
  | "exportimport", [] =>
    match exportImport st.s with
    | none => (st, "panic")
    | some s' => ({ s := s' }, "ok")
  | "dump", [] =>
    (st, (match st.s.recent with | some r => showRec r | none => "-") ++ "|" ++ ";".intercalate (st.s.hist.map showRec))
  | _, _ => (st, "bad-op")

end OsmoVerif.Twap
