/- line protocol for the `twap` engine (property C10).  State: the two stores of ONE (pool, pair).
Times are nanoseconds since the Unix epoch, prices/accumulators raw `Dec`s.

  reset                                  -> ok
  create <tNs> <height> <sp0> <sp1> <err01>   -> ok <record>
  update <tNs> <height> <sp0> <sp1> <err01>   -> ok <record> | err | panic
  prune <lastKeptNs>                     -> ok <number of records left>
  arith|geom <nowNs> <startNs> <endNs> <quoteIsAsset0 01>  -> ok <value> <flag01> | err | panic
  spot <q0> <q1> <prevErrNs> <nowNs> -> <sp0> <sp1> <latestErrNs> | panic   (getSpotPrices; q = raw BigDec | e | nil | E<raw>)
  dump                                   -> <recent>|<record>;<record>;…
  exportimport                           -> ok | panic   (panic = Validate rejects an exported record; state unchanged)

Several pools / pairs (the module state `World`; `reset` clears it too).  <pair> = <d0> <d1> <sp0> <sp1> <err01>:
  wcreate <tNs> <height> <pool> <pair>+              -> <most recent record>;…   (afterCreatePool; one entry per listed pair)
  wend <tNs> <height> {P <pool> <npairs> <pair>*}*   -> the same for every listed pair after Keeper.EndBlock's record loop | panic
                                                        (pools in the order of the changed-pool store, pairs in any order)
  wprune <lastKeptNs>                                -> ok <number of historical records left, all pairs>
  warith|wgeom <pool> <d0> <d1> <nowNs> <startNs> <endNs> <quoteIsAsset0 01>  -> as arith|geom
  wdump <pool> <d0> <d1>                             -> as dump
-/
import OsmoVerif.Model.Twap
import OsmoVerif.Model.TwapGenesis
namespace OsmoVerif.Twap

structure DrvState where
  s : Store := {}
  w : World := []

def initTwap : DrvState := {}

def showRec (r : TwapRecord) : String :=
  s!"{r.time} {r.height} {r.sp0} {r.sp1} {r.acc0} {r.acc1} {r.geom} {r.lastErr}"

def parseBool : String → Option Bool
  | "0" => some false
  | "1" => some true
  | _ => none

/-- `e` = empty value with an error, `nil` = empty value without, `E<raw>` = value with an error. -/
def parsePoolPrice (s : String) : Option PoolPrice :=
  if s = "e" then some ⟨none, true⟩
  else if s = "nil" then some ⟨none, false⟩
  else if s.startsWith "E" then (s.drop 1).toString.toInt?.map fun v => ⟨some v, true⟩
  else s.toInt?.map fun v => ⟨some v, false⟩

def showTwap : Res (Int × Bool) → String
  | .ok (v, f) => s!"ok {v} {if f then 1 else 0}"
  | .err => "err"
  | .panic => "panic"

/-- `<d0> <d1> <sp0> <sp1> <err01>` groups, all tokens consumed. -/
def parsePairs (pool : Nat) : List String → Option (List PairInput)
  | [] => some []
  | d0 :: d1 :: sp0 :: sp1 :: e :: rest =>
    match sp0.toInt?, sp1.toInt?, parseBool e, parsePairs pool rest with
    | some sp0, some sp1, some e, some ps => some (⟨⟨pool, d0, d1⟩, sp0, sp1, e⟩ :: ps)
    | _, _, _, _ => none
  | _ => none

/-- `P <pool> <npairs> <pair>*` groups, all tokens consumed (fuel: the token count). -/
def parsePools : Nat → List String → Option (List PoolInput)
  | _, [] => some []
  | 0, _ => none
  | fuel + 1, "P" :: pool :: n :: rest =>
    match pool.toNat?, n.toNat? with
    | some pool, some n =>
      if rest.length < 5 * n then none else
      match parsePairs pool (rest.take (5 * n)), parsePools fuel (rest.drop (5 * n)) with
      | some ps, some more => some (⟨pool, ps⟩ :: more)
      | _, _ => none
    | _, _ => none
  | _, _ => none

def showPair (w : World) (k : PairKey) : String :=
  match w.get k with
  | some s => (match s.recent with | some r => showRec r | none => "-")
  | none => "-"

def showPairs (w : World) (ps : List PairInput) : String := ";".intercalate (ps.map fun i => showPair w i.key)

def stepTwap (st : DrvState) (op : String) (args : List String) : DrvState × String :=
  match op, args with
  | "reset", [] => ({}, "ok")
  | "wcreate", t :: h :: pool :: rest =>
    match t.toInt?, h.toInt?, pool.toNat? with
    | some t, some h, some pool =>
      match parsePairs pool rest with
      | some ps => let w' := createPairs st.w t h ps; ({ st with w := w' }, showPairs w' ps)
      | none => (st, "bad-op")
    | _, _, _ => (st, "bad-op")
  | "wend", t :: h :: rest =>
    match t.toInt?, h.toInt?, parsePools (rest.length + 1) rest with
    | some t, some h, some pools =>
      match endBlock t h st.w pools with
      | some w' => ({ st with w := w' }, showPairs w' (pools.flatMap (·.pairs)))
      | none => (st, "panic")
    | _, _, _ => (st, "bad-op")
  | "wprune", [k] =>
    match k.toInt? with
    | some k =>
      let w' := pruneWorld st.w k
      ({ st with w := w' }, s!"ok {w'.foldl (fun n p => n + p.2.hist.length) 0}")
    | none => (st, "bad-op")
  | "warith", [pool, d0, d1, now, a, b, q] =>
    match pool.toNat?, [now, a, b].mapM String.toInt?, parseBool q with
    | some pool, some [now, a, b], some q => (st, showTwap (getTwapW st.w ⟨pool, d0, d1⟩ now a b q .arithmetic))
    | _, _, _ => (st, "bad-op")
  | "wgeom", [pool, d0, d1, now, a, b, q] =>
    match pool.toNat?, [now, a, b].mapM String.toInt?, parseBool q with
    | some pool, some [now, a, b], some q => (st, showTwap (getTwapW st.w ⟨pool, d0, d1⟩ now a b q .geometric))
    | _, _, _ => (st, "bad-op")
  | "wdump", [pool, d0, d1] =>
    match pool.toNat? with
    | some pool =>
      match st.w.get ⟨pool, d0, d1⟩ with
      | some s => (st, (match s.recent with | some r => showRec r | none => "-") ++ "|" ++ ";".intercalate (s.hist.map showRec))
      | none => (st, "-|")
    | none => (st, "bad-op")
  | "create", [t, h, sp0, sp1, e] =>
    match [t, h, sp0, sp1].mapM String.toInt?, parseBool e with
    | some [t, h, sp0, sp1], some e =>
      let s' := create st.s t h sp0 sp1 e
      ({ st with s := s' }, match s'.recent with | some r => "ok " ++ showRec r | none => "err")
    | _, _ => (st, "bad-op")
  | "update", [t, h, sp0, sp1, e] =>
    match [t, h, sp0, sp1].mapM String.toInt?, parseBool e with
    | some [t, h, sp0, sp1], some e =>
      match update st.s t h sp0 sp1 e with
      | .ok s' => ({ st with s := s' }, match s'.recent with | some r => "ok " ++ showRec r | none => "err")
      | .err => (st, "err")
      | .panic => (st, "panic")
    | _, _ => (st, "bad-op")
  | "prune", [k] =>
    match k.toInt? with
    | some k => let s' := prune st.s k; ({ st with s := s' }, s!"ok {s'.hist.length}")
    | none => (st, "bad-op")
  | "arith", [now, a, b, q] =>
    match [now, a, b].mapM String.toInt?, parseBool q with
    | some [now, a, b], some q => (st, showTwap (getTwap st.s now a b q .arithmetic))
    | _, _ => (st, "bad-op")
  | "geom", [now, a, b, q] =>
    match [now, a, b].mapM String.toInt?, parseBool q with
    | some [now, a, b], some q => (st, showTwap (getTwap st.s now a b q .geometric))
    | _, _ => (st, "bad-op")
  | "spot", [q0, q1, prev, now] =>
    match parsePoolPrice q0, parsePoolPrice q1, prev.toInt?, now.toInt? with
    | some q0, some q1, some prev, some now =>
      match getSpotPrices q0 q1 prev now with
      | some (a, b, e) => (st, s!"{a} {b} {e}")
      | none => (st, "panic")
    | _, _, _, _ => (st, "bad-op")
  -- real ExportGenesis (records of this pair), the pair's keys wiped, real InitGenesis (Model/TwapGenesis.lean)
  | "exportimport", [] =>
    match exportImport st.s with
    | none => (st, "panic")
    | some s' => ({ st with s := s' }, "ok")
  | "dump", [] =>
    (st, (match st.s.recent with | some r => showRec r | none => "-") ++ "|" ++ ";".intercalate (st.s.hist.map showRec))
  | _, _ => (st, "bad-op")

end OsmoVerif.Twap
