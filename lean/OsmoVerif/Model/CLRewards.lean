/-
Spread-reward growth per swap step (swaps.go `updateSpreadRewardGrowthGlobal`, incentives.go
`scaleUpTotalEmittedAmount`) — the arithmetic that decides how much of a spread charge each unit of
active liquidity is credited.  Raw 18-decimal Decs.  Core only.
-/
import OsmoVerif.Model.Num
namespace OsmoVerif.CLRewards
open OsmoVerif.Num

/-- growth per unit of liquidity credited to the spread-reward accumulator for one step: `charge`
scaled up (`MulTruncate`; skipped when the scaling factor is one) and `QuoTruncate`d by the active
liquidity; with zero active liquidity nothing is credited. -/
def spreadGrowth (charge liq scale : Int) : Option Int :=
  if liq = 0 then some 0 else do
    let scaled ← if scale = P18 then some charge else Dec.mulTruncate charge scale
    Dec.quoTruncate scaled liq

def sumL : List Int → Int
  | [] => 0
  | x :: xs => x + sumL xs

end OsmoVerif.CLRewards
