/-
Genesis export / import of x/incentives (keeper/genesis.go, `SetGaugeWithRefKey` / `CreateGaugeRefKeys` in
keeper/gauge.go, `GetNotFinishedGauges`) over the model of `Model/Incentives.lean`.  Core only.

* `ExportGenesis` = `{Params, LockableDurations, Gauges: GetNotFinishedGauges = GetActiveGauges ++ GetUpcomingGauges,
  LastGaugeId, GroupGauges, Groups}`.  Each list walks a reference store (key order, then list order) and loads the
  records (`getGaugesFromIterator`, panic on a dangling id).  Gauges of the FINISHED store are NOT exported.
* `InitGenesis`: params, lockable durations, then per gauge `SetGaugeWithRefKey`: the record is stored and ONE reference
  is written — upcoming / active / finished decided by the gauge's FIELDS against the import block time
  (`IsUpcomingGauge(now)`: now < start; `IsActiveGauge(now)`: start ≤ now ∧ (perpetual ∨ filled < numEpochs)), not by the
  store it was exported from; an error panics.  `SetLastGaugeID` comes last.
* `GenesisState.Validate` only checks the params (outside this model).
* Not modelled (as in `Model/Incentives.lean`): group gauges / groups, params, the gauge-ids-by-denom index.
  The bank balance of the module account and the two facts read from other modules (`Cfg.supply`, `Cfg.routed`)
  belong to other modules' genesis: `initGenesis` starts from a state that carries them.
-/
import OsmoVerif.Model.Incentives
namespace OsmoVerif.Incentives

structure Genesis where
  lockable : List Int
  /-- active store order, then upcoming store order. -/
  gauges : List Gauge
  lastGaugeId : Nat
  deriving DecidableEq, Repr

/-- `ExportGenesis` (`none` = panic on a dangling reference). -/
def exportGenesis (s : State) : Option Genesis :=
  match snapshot s.gauges (refsIds s.active), snapshot s.gauges (refsIds s.upcoming) with
  | some a, some u => some { lockable := s.cfg.lockable, gauges := a ++ u, lastGaugeId := s.lastId }
  | _, _ => none

/-- `setGauge` into the KV store keyed by id (big-endian): insert at the id's position or overwrite. -/
def putGauge : List Gauge → Gauge → List Gauge
  | [], g => [g]
  | x :: xs, g => if g.id < x.id then g :: x :: xs else if g.id = x.id then g :: xs else x :: putGauge xs g

def Gauge.isUpcomingAt (g : Gauge) (now : Int) : Bool := decide (now < g.start)

def Gauge.isActiveAt (g : Gauge) (now : Int) : Bool :=
  decide (g.start ≤ now) && (g.perpetual || decide (g.filled < g.numEpochs))

/-- `SetGaugeWithRefKey` at block time `now`. -/
def setGaugeWithRefKey (now : Int) (s : State) (g : Gauge) : Option State :=
  let s1 := { s with gauges := putGauge s.gauges g }
  if g.isUpcomingAt now then (refsAdd s1.upcoming g.start g.id).map fun r => { s1 with upcoming := r }
  else if g.isActiveAt now then (refsAdd s1.active g.start g.id).map fun r => { s1 with active := r }
  else (refsAdd s1.finished g.start g.id).map fun r => { s1 with finished := r }

def setGaugesWithRefKey (now : Int) : State → List Gauge → Option State
  | s, [] => some s
  | s, g :: gs =>
    match setGaugeWithRefKey now s g with
    | none => none
    | some s1 => setGaugesWithRefKey now s1 gs

/-- the incentives store emptied; module balance and the facts of other modules untouched. -/
def freshOf (s : State) : State :=
  { cfg := { s.cfg with lockable := [] }, gauges := [], lastId := 0, upcoming := [], active := [], finished := [],
    balance := s.balance }

/-- `InitGenesis` at block time `now` (`none` = panic). -/
def initGenesis (now : Int) (fresh : State) (g : Genesis) : Option State :=
  (setGaugesWithRefKey now { fresh with cfg := { fresh.cfg with lockable := g.lockable } } g.gauges).map
    fun s => { s with lastId := g.lastGaugeId }

/-- export, wipe the incentives store, import at block time `now`. -/
def exportImport (now : Int) (s : State) : Option State :=
  (exportGenesis s).bind fun g => initGenesis now (freshOf s) g

end OsmoVerif.Incentives
