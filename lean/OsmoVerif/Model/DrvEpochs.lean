/- line-protocol dispatch for the `epochs` engine (C17).

ops (all integers decimal; times = ns since Go's zero time, see Model/Epochs.lean)
  reset <k>                                   new history: no timers, k subscribers with empty stores
  addepoch <id> <startNs> <durNs> <curEpoch> <curStartNs> <started 0|1> <startHeight> <ctxTimeNs> <ctxHeight>
                                              keeper.AddEpochInfo under a ctx with that block time/height -> `ok` | `err`
  block <tNs> <height> <entry>*               BeginBlocker in a cache context; committed iff it does not panic
     entry = <id>:<e|s>:<subscriber index>:<outcome>:<k>=<v>,<k>=<v>…   (unlisted invocations: ok, no writes)
     outcome = o (return nil) | e (return error) | ps pr pe pp (panic: string, runtime.Error, error value,
               *ErrorOutOfGas pointer — none of which IsOutOfGasError recognises) | go gg gv (panic with
               ErrorOutOfGas{} value, a real gas-meter out-of-gas, ErrorGasOverflow{} value)
  dump                                        current committed state
  exportimport <ctxTimeNs> <ctxHeight>        ExportGenesis; store wiped; InitGenesis under that context -> the `dump` line | panic

observation of `block` / `dump`:
  <ok|panic> T <id>,<start>,<dur>,<epoch>,<curStart>,<started>,<height>;… S <e|s><n>,… C <id>.<e|s>.<n>.<sub>,… W <i>{k=v,…}|… V <view>,…
  (T,W: the state inside the block's context when BeginBlocker returned/panicked; S: keeper signals in order;
   C: hook invocations in order; V: per invocation what the subscriber read from the epochs keeper INSIDE the hook:
   <epoch>/<curStart>/<started>/<startHeight>/<NumBlocksSinceEpochStart>/<epoch;… of AllEpochInfos in store order>*<run length>) -/
import OsmoVerif.Model.Epochs
import OsmoVerif.Model.Det
namespace OsmoVerif.Epochs

def parseOutcome : String → Option Outcome
  | "o" => some .ok
  | "e" => some .err
  | "ps" => some .panic
  | "pr" => some .panic
  | "pe" => some .panic
  | "pp" => some .panic
  | "go" => some .oog
  | "gg" => some .oog
  | "gv" => some .oog
  | _ => none

def parseKind : String → Option Kind
  | "e" => some .epochEnd
  | "s" => some .epochStart
  | _ => none

def parseWrites (s : String) : Option (List (String × String)) :=
  if s = "" then some []
  else (s.splitOn ",").mapM (fun kv =>
    match kv.splitOn "=" with
    | [k, v] => some (k, v)
    | _ => none)

structure Entry where
  id : String
  kind : Kind
  sub : Nat
  run : HookRun

def parseEntry (s : String) : Option Entry :=
  match s.splitOn ":" with
  | [id, k, i, o, w] =>
    match parseKind k, i.toNat?, parseOutcome o, parseWrites w with
    | some k, some i, some o, some w => some { id := id, kind := k, sub := i, run := { outcome := o, writes := w } }
    | _, _, _, _ => none
  | _ => none

def scriptOf (es : List Entry) : Script := fun id k i =>
  match es.find? (fun e => e.id == id && e.kind == k && e.sub == i) with
  | some e => e.run
  | none => { outcome := .ok, writes := [] }

def showKind : Kind → String
  | .epochEnd => "e"
  | .epochStart => "s"

def showTimer (e : EpochInfo) : String :=
  s!"{e.identifier},{e.startTime},{e.duration},{e.currentEpoch},{e.currentEpochStartTime},{if e.epochCountingStarted then 1 else 0},{e.currentEpochStartHeight}"

def showStore (s : Store) : String :=
  "{" ++ ",".intercalate (s.map (fun kv => kv.1 ++ "=" ++ kv.2)) ++ "}"

def showSubsFrom : Nat → List Store → List String
  | _, [] => []
  | i, s :: r => (toString i ++ showStore s) :: showSubsFrom (i + 1) r

def showObs (panicked : Bool) (timers : List EpochInfo) (subs : List Store) (sigs : List Signal) (calls : List Call) : String :=
  (if panicked then "panic" else "ok")
    ++ " T " ++ ";".intercalate (timers.map showTimer)
    ++ " S " ++ ",".intercalate (sigs.map (fun s => showKind s.kind ++ toString s.epoch))
    ++ " C " ++ ",".intercalate (calls.map (fun c => s!"{c.timer}.{showKind c.kind}.{c.epoch}.{c.sub}"))
    ++ " W " ++ "|".intercalate (showSubsFrom 0 subs)

def showView (v : View) : String :=
  s!"{v.own.currentEpoch}/{v.own.currentEpochStartTime}/{if v.own.epochCountingStarted then 1 else 0}/{v.own.currentEpochStartHeight}/{v.sinceStart}/"
    ++ ";".intercalate (v.all.map fun e => toString e.currentEpoch)

/-- run-length encoding of consecutive equal strings -/
def rle : List String → List (String × Nat)
  | [] => []
  | x :: rest =>
    match rle rest with
    | (y, n) :: ys => if y = x then (x, n + 1) :: ys else (x, 1) :: (y, n) :: ys
    | [] => [(x, 1)]

def showViews (vs : List View) : String := " V " ++ ",".intercalate ((rle (vs.map showView)).map fun p => p.1 ++ "*" ++ toString p.2)

def initEpochs : State := initState 0

def stepEpochs (st : State) (op : String) (args : List String) : State × String :=
  match op, args with
  | "reset", [k] =>
    match k.toNat? with
    | some k => (initState k, "ok")
    | none => (st, "bad-op")
  | "addepoch", [id, start, dur, cur, curStart, started, height, ctxT, ctxH] =>
    match start.toInt?, dur.toInt?, cur.toInt?, curStart.toInt?, started.toNat?, height.toInt?, ctxT.toInt?, ctxH.toInt? with
    | some start, some dur, some cur, some curStart, some started, some height, some ctxT, some ctxH =>
      let e : EpochInfo := { identifier := id, startTime := start, duration := dur, currentEpoch := cur,
                             currentEpochStartTime := curStart, epochCountingStarted := started != 0,
                             currentEpochStartHeight := height }
      match addEpochInfo ctxT ctxH e st with
      | some st' => (st', "ok")
      | none => (st, "err")
    | _, _, _, _, _, _, _, _ => (st, "bad-op")
  | "block", t :: h :: entries =>
    match t.toInt?, h.toInt?, entries.mapM parseEntry with
    | some t, some h, some es =>
      let b : Block := { t := t, h := h, script := scriptOf es }
      let o := beginBlock st b
      (stepBlock st b, showObs o.panicked o.timers o.subs o.signals o.calls ++ showViews (blockViews st b))
    | _, _, _ => (st, "bad-op")
  | "dump", [] => (st, showObs false st.timers st.subs [] [] ++ showViews [])
  -- C19: x/epochs ExportGenesis -> store wiped -> InitGenesis under a context with that block time / height
  -- (`Det.epochsImport ctxT ctxH subs (Det.epochsExport s)`: AddEpochInfo per timer); `panic` = AddEpochInfo returned an error
  | "exportimport", [ctxT, ctxH] =>
    match ctxT.toInt?, ctxH.toInt? with
    | some ctxT, some ctxH =>
      match Det.epochsImport ctxT ctxH st.subs (Det.epochsExport st) with
      | some st' => (st', showObs false st'.timers st'.subs [] [] ++ showViews [])
      | none => (st, "panic")
    | _, _ => (st, "bad-op")
  | _, _ => (st, "bad-op")

end OsmoVerif.Epochs
