/- line protocol for the `incentives` engine (property C09)

  reset <lockable ns csv|-> <supply denoms csv|-> <routed denoms csv|-> <module balance coins|->      → ok
  routes <routed denoms csv|->                                                                          → ok
  creategauge <perpetual 0/1> <lock denom> <duration ns> <coins|-> <start ns> <numEpochs>               → ok <id> up=[ids] bal=<coins> | err
  addtogauge <id> <coins|-> <now ns>                                                                     → ok <gauge coins> bal=<coins> | err
  epoch <now ns> <quotes: denom=min|denom=!,…|-> <locks: id:owner:recv|-:durNs:denom:amt:unl(0/1);…|->             → ok pay=[addr:coins;…] up=[…] act=[…] fin=[…] g=[id:filled:distributed;…] bal=<coins> | err
  dump                                                                                                   → every field of the state
  exportimport <now ns>                                                                                  → ok | panic
  lockable                                                                                               → ok <ns csv>

  coins = denom=amt,denom=amt (sorted by denom) or `-`.
  quotes = the base denom with the MinValueForDistribution amount, every reward denom WITH a protorev route with the
  amount CalcOutAmtGivenIn(route pool, minimum, denom) returns (0 allowed) or `!` when that call fails; no route: absent.
-/
import OsmoVerif.Model.Incentives
import OsmoVerif.Model.IncentivesGenesis
namespace OsmoVerif.Incentives

def initIncentives : State := init ⟨[], [], []⟩ []

def csv (s : String) : List String := if s = "-" then [] else s.splitOn ","

def parseCoins (s : String) : Option Coins :=
  (csv s).mapM fun x =>
    match x.splitOn "=" with
    | [d, a] => a.toInt?.map fun a => (d, a)
    | _ => none

def parseInts (s : String) : Option (List Int) := (csv s).mapM String.toInt?

def parseLock (x : String) : Option Lock :=
  match x.splitOn ":" with
  | [id, owner, recv, dur, denom, amt, unl] => do
    let id ← id.toNat?
    let owner ← owner.toNat?
    let recv ← (if recv = "-" then some none else recv.toNat?.map some)
    let dur ← dur.toInt?
    let amt ← amt.toNat?
    some ⟨id, owner, recv, dur, denom, amt, unl = "1"⟩
  | _ => none

def parseLocks (s : String) : Option (List Lock) :=
  if s = "-" then some [] else (s.splitOn ";").mapM parseLock

def showCoins (c : Coins) : String :=
  if c.isEmpty then "-" else ",".intercalate (c.map fun x => s!"{x.1}={x.2}")

def showIds (l : List Nat) : String := "[" ++ ",".intercalate (l.map toString) ++ "]"

def showRecv (l : List (Nat × Coins)) : String :=
  "[" ++ ";".intercalate (l.map fun x => s!"{x.1}:{showCoins x.2}") ++ "]"

def showGauges (gs : List Gauge) : String :=
  "[" ++ ";".intercalate (gs.map fun g => s!"{g.id}:{g.filled}:{showCoins g.distributed}") ++ "]"

def showFull (g : Gauge) : String :=
  s!"{g.id}:{if g.perpetual then 1 else 0}:{g.denom}:{g.duration}:{showCoins g.coins}:{showCoins g.distributed}:{g.start}:{g.numEpochs}:{g.filled}"

def parseQuotes (s : String) : Option Quotes :=
  (csv s).mapM fun x =>
    match x.splitOn "=" with
    | [d, "!"] => some (d, none)
    | [d, a] => a.toInt?.map fun a => (d, some a)
    | _ => none

def stepIncentives (st : State) (op : String) (args : List String) : State × String :=
  match op, args with
  | "reset", [lockable, supply, routed, bal] =>
    match parseInts lockable, parseCoins bal with
    | some l, some b => (init ⟨l, csv supply, csv routed⟩ b, "ok")
    | _, _ => (st, "bad-op")
  | "routes", [routed] => ({ st with cfg := { st.cfg with routed := csv routed } }, "ok")
  | "creategauge", [perp, denom, dur, coins, start, n] =>
    match dur.toInt?, parseCoins coins, start.toInt?, n.toNat? with
    | some dur, some coins, some start, some n =>
      match createGauge st (perp = "1") denom dur coins start n with
      | none => (st, "err")
      | some s' => (s', s!"ok {s'.lastId} up={showIds (refsIds s'.upcoming)} bal={showCoins s'.balance}")
    | _, _, _, _ => (st, "bad-op")
  | "addtogauge", [id, coins, now] =>
    match id.toNat?, parseCoins coins, now.toInt? with
    | some id, some coins, some now =>
      match addToGauge st id coins now with
      | none => (st, "err")
      | some s' =>
        match getGauge s'.gauges id with
        | some g => (s', s!"ok {showCoins g.coins} bal={showCoins s'.balance}")
        | none => (s', "ok ? bal=" ++ showCoins s'.balance)
    | _, _, _ => (st, "bad-op")
  | "epoch", [now, thr, locks] =>
    match now.toInt?, parseQuotes thr, parseLocks locks with
    | some now, some thr, some locks =>
      match epoch st now thr locks with
      | none => (st, "err")
      | some (s', info) =>
        (s', s!"ok pay={showRecv (received info)} up={showIds (refsIds s'.upcoming)} act={showIds (refsIds s'.active)} fin={showIds (refsIds s'.finished)} g={showGauges s'.gauges} bal={showCoins s'.balance}")
    | _, _, _ => (st, "bad-op")
  -- real ExportGenesis, incentives store wiped, real InitGenesis at block time `now` (Model/IncentivesGenesis.lean)
  | "exportimport", [now] =>
    match now.toInt? with
    | some now =>
      match exportImport now st with
      | none => (st, "panic")
      | some s' => (s', "ok")
    | none => (st, "bad-op")
  | "lockable", [] => (st, "ok " ++ ",".intercalate (st.cfg.lockable.map toString))
  | "dump", [] =>
    (st, s!"last={st.lastId} gauges=[{";".intercalate (st.gauges.map showFull)}] up={showIds (refsIds st.upcoming)} act={showIds (refsIds st.active)} fin={showIds (refsIds st.finished)} bal={showCoins st.balance}")
  | _, _ => (st, "bad-op")

end OsmoVerif.Incentives
