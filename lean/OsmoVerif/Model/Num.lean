/-
Model of osmomath.BigDec (36 decimals), cosmossdk.io/math.LegacyDec (18 decimals,
aliased osmomath.Dec) and the integer wrappers, over raw `Int` values.

Conventions (DESIGN §4): a fixed-point number is its raw integer (value·10^prec);
Go `big.Int.Quo/Rem/QuoRem` = `Int.tdiv/Int.tmod` (truncated); every operation
that can panic in Go returns `Option`, `none` = panic (overflow, division by
zero).  Nothing is totalised: division by zero is `none`.
Core-only (no Mathlib) so the driver links.
-/
import OsmoVerif.Gen.Osmomath

namespace OsmoVerif.Num
open OsmoVerif.Gen

/-- 10^36, `defaultBigDecPrecisionReuse`. -/
def P36 : Int := 10 ^ Osmomath.BigDecPrecision
/-- 10^18, `precisionReuseSDKDec`. -/
def P18 : Int := 10 ^ Osmomath.DecPrecision
/-- `bigDecDecPrecisionFactorDiff` = 10^(36-18). -/
def Pdiff : Int := 10 ^ (Osmomath.BigDecPrecision - Osmomath.DecPrecision)

/-- `big.Int.BitLen() ≤ n`  ⇔  |x| < 2^n. -/
@[irreducible] def fitsBits (n : Nat) (x : Int) : Bool := x.natAbs < 2 ^ n

/-- `assertMaxBitLen`: panic iff BitLen > maxDecBitLen. -/
def chk (x : Int) : Option Int := if fitsBits Osmomath.maxDecBitLen x then some x else none

/-- LegacyDec `assertInValidRange`: |raw| ≤ 2^256·10^18 − 1. -/
def decUpper : Int := 2 ^ Osmomath.sdkMaxBitLen * 10 ^ Osmomath.sdkLegacyPrecision - 1
def chkDec (x : Int) : Option Int := if x ≤ decUpper ∧ -decUpper ≤ x then some x else none

/-- sdk `Int`: panics (NewIntFromBigInt) iff BitLen > 256. -/
def chkInt (x : Int) : Option Int := if fitsBits Osmomath.sdkMaxBitLen x then some x else none
/-- osmomath `BigInt`: BitLen > 1024 panics. -/
def chkBigInt (x : Int) : Option Int := if fitsBits Osmomath.maxBitLen x then some x else none

/-! ### chop helpers (mirror the Go bodies, sign handling included) -/

/-- `chopPrecisionAndRound` on a non-negative input: truncated quotient, remainder
compared with `P/2`, ties to even. -/
def chopRoundNonneg (P : Int) (d : Int) : Int :=
  let q := d.tdiv P
  let r := d.tmod P
  if r = 0 then q
  else if r < P.tdiv 2 then q
  else if r > P.tdiv 2 then q + 1
  else if q % 2 = 0 then q else q + 1

/-- `chopPrecisionAndRound`: negate, round, negate. -/
def chopRound (P : Int) (d : Int) : Int :=
  if d < 0 then -(chopRoundNonneg P (-d)) else chopRoundNonneg P d

/-- `chopPrecisionAndTruncate(Mut)`: `big.Int.Quo`. -/
def chopTrunc (P : Int) (d : Int) : Int := d.tdiv P

/-- `incBasedOnRem`: add one iff remainder ≠ 0 (whatever its sign). -/
def incBasedOnRem (rem q : Int) : Int := if rem = 0 then q else q + 1

/-- `incBasedOnRemAndDivisor`: add one iff the division was inexact and the remainder
(sign of the dividend) has the sign of the divisor, i.e. the exact quotient is positive. -/
def incRemDiv (rem divisor q : Int) : Int :=
  if rem ≠ 0 ∧ rem.sign = divisor.sign then q + 1 else q

/-- `chopPrecisionAndRoundUpMut`: negatives truncate, non-negatives `incBasedOnRem`. -/
def chopRoundUp (P : Int) (d : Int) : Int :=
  if d < 0 then -((-d).tdiv P) else incBasedOnRem (d.tmod P) (d.tdiv P)

/-! ### BigDec operations (raw 10^36) -/
namespace BigDec

def add (a b : Int) : Option Int := chk (a + b)
def sub (a b : Int) : Option Int := chk (a - b)
def mul (a b : Int) : Option Int := chk (chopRound P36 (a * b))
/-- `MulDec`: b is a raw `Dec` (10^18). -/
def mulDec (a b : Int) : Option Int := chk (chopRound P18 (a * b))
def mulTruncate (a b : Int) : Option Int := chk (chopTrunc P36 (a * b))
def mulTruncateDec (a b : Int) : Option Int := chk (chopTrunc P18 (a * b))
def mulRoundUp (a b : Int) : Option Int := chk (chopRoundUp P36 (a * b))
def mulRoundUpDec (a b : Int) : Option Int := chk (chopRoundUp P18 (a * b))
/-- `MulInt`/`MulInt64`: b an integer. -/
def mulInt (a b : Int) : Option Int := chk (a * b)

/-- `Quo`/`QuoMut`: ×10^72, truncated division, half-even chop by 10^36. -/
def quo (a b : Int) : Option Int :=
  if b = 0 then none else chk (chopRound P36 ((a * (P36 * P36)).tdiv b))
/-- `QuoRaw(int64)`: ×10^36, truncated division by the integer, then half-even chop. -/
def quoRaw (a b : Int) : Option Int :=
  if b = 0 then none else chk (chopRound P36 ((a * P36).tdiv b))
def quoTruncate (a b : Int) : Option Int :=
  if b = 0 then none else chk ((a * P36).tdiv b)
def quoTruncateDec (a b : Int) : Option Int :=
  if b = 0 then none else chk ((a * P18).tdiv b)
/-- `QuoRoundUp`: truncated quotient of `a·10^36` by `b`, `incBasedOnRemAndDivisor`. -/
def quoRoundUp (a b : Int) : Option Int :=
  if b = 0 then none else
    let m := a * P36
    chk (incRemDiv (m.tmod b) b (m.tdiv b))
def quoByDecRoundUp (a b : Int) : Option Int :=
  if b = 0 then none else
    let m := a * P18
    chk (incRemDiv (m.tmod b) b (m.tdiv b))
/-- `QuoRoundUpMut`: same value as `QuoRoundUp`. -/
def quoRoundUpMut (a b : Int) : Option Int :=
  if b = 0 then none else
    let m := a * P36
    chk (incRemDiv (m.tmod b) b (m.tdiv b))
/-- `QuoRoundUpNextIntMut`: raw quotient (no pre-scaling) rounded up to the next integer, then ×10^36. -/
def quoRoundUpNextIntMut (a b : Int) : Option Int :=
  if b = 0 then none else chk (incRemDiv (a.tmod b) b (a.tdiv b) * P36)
/-- `QuoInt`/`QuoInt64`: no overflow check (cannot grow). -/
def quoInt (a b : Int) : Option Int := if b = 0 then none else some (a.tdiv b)

/-- `Ceil`/`CeilMut`: result is a BigDec (×10^36); no bit-length assertion in the code. -/
def ceil (a : Int) : Option Int :=
  let q := a.tdiv P36
  let r := a.tmod P36
  some ((if r ≤ 0 then q else q + 1) * P36)
/-- `TruncateInt` → osmomath.BigInt (panics beyond 1024 bits). -/
def truncateInt (a : Int) : Option Int := chkBigInt (a.tdiv P36)
def truncateDec (a : Int) : Option Int := some (a.tdiv P36 * P36)
def roundInt (a : Int) : Option Int := chkBigInt (chopRound P36 a)
/-- `Dec()`: truncate 18 digits; result is a raw LegacyDec, *no range check in the code*. -/
def dec (a : Int) : Option Int := some (a.tdiv Pdiff)
/-- `DecRoundUp()`: truncated quotient + `incBasedOnRemAndDivisor` (divisor 10^18 > 0). -/
def decRoundUp (a : Int) : Option Int := some (incRemDiv (a.tmod Pdiff) Pdiff (a.tdiv Pdiff))
/-- `DecWithPrecision(p)`, p ≤ 18: keep p decimals (truncated), as a raw LegacyDec. -/
def decWithPrecision (a : Int) (p : Nat) : Option Int :=
  if p > Osmomath.DecPrecision then none
  else some (a.tdiv (10 ^ (Osmomath.BigDecPrecision - p)) * 10 ^ (Osmomath.DecPrecision - p))
/-- `ChopPrecision(p)`, p ≤ 36. -/
def chopPrecision (a : Int) (p : Nat) : Option Int :=
  if p > Osmomath.BigDecPrecision then none
  else let f : Int := 10 ^ (Osmomath.BigDecPrecision - p); some (a.tdiv f * f)
/-- `BigDecFromDec`: ×10^18, exact. -/
def fromDec (d : Int) : Option Int := some (d * Pdiff)

/-- `PowerIntegerMut` loop: square-and-multiply with half-even `MulMut` at every step. -/
def powLoop : Nat → Nat → Int → Int → Option (Int × Int)
  | 0, _, d, tmp => some (d, tmp)
  | fuel + 1, i, d, tmp =>
    if i > 1 then do
      let tmp' ← if i % 2 ≠ 0 then mul tmp d else pure tmp
      let d' ← mul d d
      powLoop fuel (i / 2) d' tmp'
    else some (d, tmp)

def powerInteger (d : Int) (n : Nat) : Option Int :=
  if n = 0 then some P36
  else if n = 1 then some d
  else if n = 2 then mul d d
  else do
    let (d', tmp) ← powLoop 64 n d P36
    mul d' tmp

end BigDec

/-! ### value-semantic pool machine (alias chains)

A chain is a list of method calls over a small pool of `BigDec` VARIABLES.  A non-mutating method binds its
result to `pool[dst]` (a fresh object in Go); a `…Mut` method updates its receiver `pool[r]` in place and its
return value is dropped.  The model is value-semantic: one step changes ONE variable.  If a Go method returned
storage shared with an operand, a later in-place update would change two variables and the engine's replay of
the chain on live objects would disagree with this machine (and with the engine's own `big.Rat` reference). -/
namespace Chain

inductive COp where
  | add | sub | mul | quo | mulTruncate | mulRoundUp | quoTruncate | quoRoundUp
  | neg | abs | ceil | clone | truncateDec | chopPrecision | powerInteger
  | addMut | subMut | mulMut | quoMut | quoTruncateMut | quoRoundUpMut | quoRoundUpNextIntMut
  | negMut | absMut | ceilMut | chopPrecisionMut | powerIntegerMut
deriving DecidableEq, Repr

/-- a `…Mut` method: the target variable is the receiver -/
def COp.isMut : COp → Bool
  | .addMut | .subMut | .mulMut | .quoMut | .quoTruncateMut | .quoRoundUpMut | .quoRoundUpNextIntMut
  | .negMut | .absMut | .ceilMut | .chopPrecisionMut | .powerIntegerMut => true
  | _ => false

/-- the argument is a pool variable (otherwise a scalar: precision / power, or unused) -/
def COp.binary : COp → Bool
  | .add | .sub | .mul | .quo | .mulTruncate | .mulRoundUp | .quoTruncate | .quoRoundUp
  | .addMut | .subMut | .mulMut | .quoMut | .quoTruncateMut | .quoRoundUpMut | .quoRoundUpNextIntMut => true
  | _ => false

/-- the value bound to the target: the method's result, for `…Mut` the receiver after the call.
`PowerIntegerMut(0)` returns a fresh one and leaves the receiver alone (Go: `if power == 0 { return OneBigDec() }`). -/
def COp.eval (op : COp) (x y : Int) : Option Int :=
  match op with
  | .add | .addMut => BigDec.add x y
  | .sub | .subMut => BigDec.sub x y
  | .mul | .mulMut => BigDec.mul x y
  | .quo | .quoMut => BigDec.quo x y
  | .mulTruncate => BigDec.mulTruncate x y
  | .mulRoundUp => BigDec.mulRoundUp x y
  | .quoTruncate | .quoTruncateMut => BigDec.quoTruncate x y
  | .quoRoundUp => BigDec.quoRoundUp x y
  | .quoRoundUpMut => BigDec.quoRoundUpMut x y
  | .quoRoundUpNextIntMut => BigDec.quoRoundUpNextIntMut x y
  | .neg | .negMut => some (-x)
  | .abs | .absMut => some (Int.ofNat x.natAbs)
  | .ceil | .ceilMut => BigDec.ceil x
  | .clone => some x
  | .truncateDec => BigDec.truncateDec x
  | .chopPrecision | .chopPrecisionMut => BigDec.chopPrecision x y.toNat
  | .powerInteger => BigDec.powerInteger x y.toNat
  | .powerIntegerMut => if y = 0 then some x else BigDec.powerInteger x y.toNat

/-- the variable a step writes -/
def target (op : COp) (dst r : Nat) : Nat := if op.isMut then r else dst

/-- one call: `pool[dst] := pool[r].op(pool[a])` (binary) / `pool[r].op(a)` (scalar); `none` = the call panics. -/
def step (pool : List Int) (op : COp) (dst r : Nat) (a : Int) : Option (List Int) :=
  match pool[r]?, (if op.binary then pool[a.toNat]? else some a) with
  | some x, some y =>
    match op.eval x y with
    | some v => if target op dst r < pool.length then some (pool.set (target op dst r) v) else none
    | none => none
  | _, _ => none

/-- run the steps; `Sum.inr i` = step `i` panicked (the chain stops there). -/
def run : List Int → List (COp × Nat × Nat × Int) → Nat → List Int ⊕ Nat
  | pool, [], _ => .inl pool
  | pool, (op, dst, r, a) :: rest, i =>
    match step pool op dst r a with
    | some pool' => run pool' rest (i + 1)
    | none => .inr i

end Chain

/-! ### LegacyDec operations (raw 10^18), cosmossdk.io/math -/
namespace Dec

def add (a b : Int) : Option Int := chkDec (a + b)
def sub (a b : Int) : Option Int := chkDec (a - b)
def mul (a b : Int) : Option Int := chkDec (chopRound P18 (a * b))
def mulTruncate (a b : Int) : Option Int := chkDec (chopTrunc P18 (a * b))
/-- sdk `chopPrecisionAndRoundUp`: negatives truncate, non-negatives +1 iff rem ≠ 0. -/
def mulRoundUp (a b : Int) : Option Int := chkDec (chopRoundUp P18 (a * b))
def mulInt (a b : Int) : Option Int := chkDec (a * b)
def quo (a b : Int) : Option Int :=
  if b = 0 then none else chkDec (chopRound P18 ((a * (P18 * P18)).tdiv b))
def quoTruncate (a b : Int) : Option Int :=
  if b = 0 then none else chkDec ((a * P18).tdiv b)
/-- sdk `QuoRoundupMut`: note the code tests the sign of the *quotient* (d was overwritten). -/
def quoRoundUp (a b : Int) : Option Int :=
  if b = 0 then none else
    let m := a * P18
    let q := m.tdiv b
    let r := m.tmod b
    let qneg : Bool := q < 0
    let bneg : Bool := b < 0
    chkDec (if (r > 0 ∧ qneg = bneg) ∨ (r < 0 ∧ qneg ≠ bneg) then q + 1 else q)
def quoInt (a b : Int) : Option Int := if b = 0 then none else some (a.tdiv b)
def ceil (a : Int) : Option Int :=
  let q := a.tdiv P18
  let r := a.tmod P18
  chkDec ((if r ≤ 0 then q else q + 1) * P18)
def truncateInt (a : Int) : Option Int := chkInt (a.tdiv P18)
def roundInt (a : Int) : Option Int := chkInt (chopRound P18 a)
def truncateDec (a : Int) : Option Int := some (a.tdiv P18 * P18)

end Dec

/-! ### Text encoding (String / NewBigDecFromStr, Marshal / Unmarshal) -/

/-- digits of a natural number, most significant first. -/
def natDigits (n : Nat) : String := toString n

/-- `BigDec.String()`: sign, integer part, '.', exactly 36 fractional digits. -/
def BigDec.toStr (a : Int) : String :=
  let n := a.natAbs
  let ip := n / 10 ^ Osmomath.BigDecPrecision
  let fp := n % 10 ^ Osmomath.BigDecPrecision
  let fs := natDigits fp
  let pad := String.ofList (List.replicate (Osmomath.BigDecPrecision - fs.length) '0')
  (if a < 0 then "-" else "") ++ natDigits ip ++ "." ++ pad ++ fs

def digitsToNat? (s : String) : Option Nat :=
  if s.isEmpty then none
  else s.foldl (fun acc c => acc.bind fun n => if c.isDigit then some (n * 10 + (c.toNat - '0'.toNat)) else none) (some 0)

/-- `NewBigDecFromStr` restricted to the outputs of `String()` and their malformed
neighbours: optional '-', digits, optional '.' + 1..36 digits; BitLen > maxBitLen rejected. -/
def BigDec.fromStr (s : String) : Option Int :=
  if s.isEmpty then none else
  let (neg, body) := if s.front = '-' then (true, (s.drop 1).toString) else (false, s)
  if body.isEmpty then none else
  match body.splitOn "." with
  | [ip] =>
    match digitsToNat? ip with
    | some n =>
      let v : Int := (n : Int) * P36
      if fitsBits Osmomath.maxBitLen v then some (if neg then -v else v) else none
    | none => none
  | [ip, fp] =>
    if fp.isEmpty || ip.isEmpty || fp.length > Osmomath.BigDecPrecision then none else
    match digitsToNat? (ip ++ fp) with
    | some n =>
      let v : Int := (n : Int) * 10 ^ (Osmomath.BigDecPrecision - fp.length)
      if fitsBits Osmomath.maxBitLen v then some (if neg then -v else v) else none
    | none => none
  | _ => none

/-- `Unmarshal(Marshal(x))`: decimal text of the raw integer; BitLen > maxBitLen rejected. -/
def BigDec.marshalRoundtrip (a : Int) : Option Int :=
  if fitsBits Osmomath.maxBitLen a then some a else none

end OsmoVerif.Num
