/-
Model of osmoutils/accum (accum.go, accum_helpers.go, prefix.go, options.go) and of the
sdk `DecCoins` operations it uses (types/dec_coin.go: safeAdd/Add, negative, SafeSub, Sub,
IsAnyNegative, MulDec, TruncateDecimal), over raw 18-decimal `Int` amounts (`Num.Dec.*`).

* `DecCoins` = `List (denom × raw)`.  The sdk normal form (sorted by denom, no zero entry)
  is a separate invariant (`Proofs/AccumCoins.lean: Sorted`); the operations below mirror the
  Go control flow on ANY list (merge by comparing the two heads, zero results dropped).
* the store is two association lists (keys unique, replace-or-append; `dump` sorts):
  `accum||acc||name ↦ Content(value,totalShares)`, `accum||pos||name||pos ↦ Record`.
* a `Handle` is the Go `*AccumulatorObject` (name + CACHED valuePerShare + CACHED totalShares).
  `AddToAccumulator`/`DeletePosition` write the cached total back; `New/Add/RemoveFromPosition…`
  re-read the total from the store but write the cached VALUE back; `ClaimRewards`,
  `GetTotalRewards` and the plain (non-interval) variants use the cached value.
* every method returns the new store, the (possibly mutated) handle and `ok …`/`err`/`panic`.
  A Go panic or error AFTER a write keeps the write (there is no rollback in the package);
  nothing is totalised.
Core-only.
-/
import OsmoVerif.Model.Num
import OsmoVerif.Gen.Accum

namespace OsmoVerif.Accum
open OsmoVerif.Num

abbrev DecCoins := List (String × Int)

/-! ### sdk DecCoins -/

/-- `removeZeroDecCoins`. -/
def removeZero (cs : DecCoins) : DecCoins := cs.filter (fun c => c.2 ≠ 0)

/-- inner loop of `safeAdd` while set A is `(da,xa) :: ta`; `addTa` is `safeAdd ta`. -/
def addAux (da : String) (xa : Int) (ta : DecCoins) (addTa : DecCoins → Option DecCoins) :
    DecCoins → Option DecCoins
  | [] => some (removeZero ((da, xa) :: ta))
  | (db, xb) :: tb =>
    if da < db then
      (addTa ((db, xb) :: tb)).map (fun r => if xa = 0 then r else (da, xa) :: r)
    else if da = db then
      match Dec.add xa xb with
      | none => none
      | some s => (addTa tb).map (fun r => if s = 0 then r else (da, s) :: r)
    else
      (addAux da xa ta addTa tb).map (fun r => if xb = 0 then r else (db, xb) :: r)

/-- `DecCoins.safeAdd` (= `Add`): merge on the heads; `none` = `LegacyDec.Add` overflow panic. -/
def add : DecCoins → DecCoins → Option DecCoins
  | [], b => some (removeZero b)
  | (da, xa) :: ta, b => addAux da xa ta (add ta) b

/-- `negative()`. -/
def neg (cs : DecCoins) : DecCoins := cs.map (fun c => (c.1, -c.2))

/-- `IsAnyNegative`. -/
def anyNeg (cs : DecCoins) : Bool := cs.any (fun c => c.2 < 0)

/-- `SafeSub`: difference and the has-negative flag. -/
def safeSub (a b : DecCoins) : Option (DecCoins × Bool) :=
  (add a (neg b)).map (fun r => (r, anyNeg r))

/-- `Sub`: panics ("negative coin amount") when a component is negative. -/
def sub (a b : DecCoins) : Option DecCoins :=
  match add a (neg b) with
  | none => none
  | some r => if anyNeg r then none else some r

/-- `MulDec` loop: `res = res.Add(product)` for non-zero half-even products. -/
def mulDecGo (s : Int) : DecCoins → DecCoins → Option DecCoins
  | res, [] => some res
  | res, (d, x) :: t =>
    match Dec.mul x s with
    | none => none
    | some p => if p = 0 then mulDecGo s res t else
      match add res [(d, p)] with
      | none => none
      | some res' => mulDecGo s res' t

def mulDec (cs : DecCoins) (s : Int) : Option DecCoins := mulDecGo s [] cs

/-- `Coins.Add` of one coin into a sorted set (sum on equal denom, 256-bit check). -/
def coinsAdd : List (String × Int) → String → Int → Option (List (String × Int))
  | [], d, t => some [(d, t)]
  | (e, y) :: r, d, t =>
    if d < e then some ((d, t) :: (e, y) :: r)
    else if d = e then (chkInt (y + t)).map (fun s => (e, s) :: r)
    else (coinsAdd r d t).map (fun r' => (e, y) :: r')

/-- `DecCoins.TruncateDecimal` loop.  Per coin: `TruncateInt` (256-bit panic), `NewCoin`
panics on a negative integer part, `NewDecCoinFromDec` panics on a negative change. -/
def truncGo : List (String × Int) → DecCoins → DecCoins → Option (List (String × Int) × DecCoins)
  | tc, cc, [] => some (tc, cc)
  | tc, cc, (d, x) :: t =>
    match Dec.truncateInt x with
    | none => none
    | some q =>
      match Dec.sub x (q * P18) with
      | none => none
      | some ch =>
        if q < 0 ∨ ch < 0 then none else
        match (if q = 0 then some tc else coinsAdd tc d q) with
        | none => none
        | some tc' =>
          match (if ch = 0 then some cc else add cc [(d, ch)]) with
          | none => none
          | some cc' => truncGo tc' cc' t

def truncateDecimal (cs : DecCoins) : Option (List (String × Int) × DecCoins) := truncGo [] [] cs

/-! ### store -/

structure Content where
  value : DecCoins
  total : Int
deriving DecidableEq, Repr

structure Record where
  shares : Int
  snap : DecCoins
  unclaimed : DecCoins
  opt : Bool
deriving DecidableEq, Repr

def alookup {κ α : Type} [DecidableEq κ] : List (κ × α) → κ → Option α
  | [], _ => none
  | (k, v) :: t, q => if k = q then some v else alookup t q

/-- replace in place, else append. -/
def aset {κ α : Type} [DecidableEq κ] : List (κ × α) → κ → α → List (κ × α)
  | [], q, v => [(q, v)]
  | (k, w) :: t, q, v => if k = q then (k, v) :: t else (k, w) :: aset t q v

def adel {κ α : Type} [DecidableEq κ] : List (κ × α) → κ → List (κ × α)
  | [], _ => []
  | (k, w) :: t, q => if k = q then adel t q else (k, w) :: adel t q

structure Store where
  accs : List (String × Content)
  poss : List ((String × String) × Record)
deriving DecidableEq, Repr

def Store.empty : Store := ⟨[], []⟩

structure Handle where
  name : String
  value : DecCoins
  total : Int
deriving DecidableEq, Repr

inductive Res (α : Type) where
  | ok (a : α)
  | err
  | panic
deriving DecidableEq, Repr

def isPrefixL : List Char → List Char → Bool
  | [], _ => true
  | _ :: _, [] => false
  | a :: s, b :: t => a = b && isPrefixL s t

def containsL (sep : List Char) : List Char → Bool
  | [] => isPrefixL sep []
  | c :: t => isPrefixL sep (c :: t) || containsL sep t

/-- `strings.Contains(name, KeySeparator)` (separator regenerated from prefix.go). -/
def hasSep (name : String) : Bool := containsL Gen.Accum.KeySeparator.toList name.toList

def Store.setPos (st : Store) (acc pos : String) (r : Record) : Store :=
  { st with poss := aset st.poss (acc, pos) r }
def Store.delPos (st : Store) (acc pos : String) : Store :=
  { st with poss := adel st.poss (acc, pos) }
def Store.getPos (st : Store) (acc pos : String) : Option Record := alookup st.poss (acc, pos)

/-- `setAccumulator`: error (no write) iff the name contains the separator. -/
def setAccumulator (st : Store) (name : String) (value : DecCoins) (total : Int) : Store × Bool :=
  if hasSep name then (st, false) else ({ st with accs := aset st.accs name ⟨value, total⟩ }, true)

/-- `MakeAccumulator`. -/
def makeAccumulator (st : Store) (name : String) : Store × Res Unit :=
  if (alookup st.accs name).isSome then (st, .err)
  else match setAccumulator st name [] 0 with
    | (st', true) => (st', .ok ())
    | (st', false) => (st', .err)

/-- `GetAccumulator`: a fresh handle caching the stored value and total. -/
def getAccumulator (st : Store) (name : String) : Option Handle :=
  (alookup st.accs name).map (fun c => ⟨name, c.value, c.total⟩)

/-- `AddToAccumulator`: cached value += amt, then cached value AND cached total written. -/
def addToAccumulator (st : Store) (h : Handle) (amt : DecCoins) : Store × Handle × Res Unit :=
  match add h.value amt with
  | none => (st, h, .panic)
  | some v =>
    let h' := { h with value := v }
    ((setAccumulator st h'.name h'.value h'.total).1, h', .ok ())

/-- `GetTotalRewards`: unclaimed + (cached value − snapshot).MulDec(shares). -/
def getTotalRewards (h : Handle) (r : Record) : Option DecCoins :=
  match sub h.value r.snap with
  | none => none
  | some diff =>
    match mulDec diff r.shares with
    | none => none
    | some acc => add r.unclaimed acc

/-- tail shared by New/Add/Remove: re-read the stored total, adjust, write cached value + new total. -/
def finishShares (st1 : Store) (h : Handle) (delta : Int) : Store × Handle × Res Unit :=
  match getAccumulator st1 h.name with
  | none => (st1, h, .err)
  | some u =>
    match Dec.add u.total delta with
    | none => (st1, h, .panic)
    | some t =>
      let h' := { h with total := t }
      match setAccumulator st1 h'.name h'.value h'.total with
      | (st2, true) => (st2, h', .ok ())
      | (st2, false) => (st2, h', .err)

/-- `NewPositionIntervalAccumulation` (options always validate). Overwrites an existing record. -/
def newPositionInterval (st : Store) (h : Handle) (pos : String) (shares : Int) (iv : DecCoins) (opt : Bool) :
    Store × Handle × Res Unit :=
  finishShares (st.setPos h.name pos ⟨shares, iv, [], opt⟩) h shares

def newPosition (st : Store) (h : Handle) (pos : String) (shares : Int) (opt : Bool) :=
  newPositionInterval st h pos shares h.value opt

/-- `AddToPositionIntervalAccumulation`. -/
def addToPositionInterval (st : Store) (h : Handle) (pos : String) (n : Int) (iv : DecCoins) :
    Store × Handle × Res Unit :=
  if ¬ (0 < n) then (st, h, .err) else
  match st.getPos h.name pos with
  | none => (st, h, .err)
  | some p =>
    match getTotalRewards h p with
    | none => (st, h, .panic)
    | some unclaimed =>
      match Dec.add p.shares n with
      | none => (st, h, .panic)
      | some sh => finishShares (st.setPos h.name pos ⟨sh, iv, unclaimed, p.opt⟩) h n

def addToPosition (st : Store) (h : Handle) (pos : String) (n : Int) :=
  addToPositionInterval st h pos n h.value

/-- `RemoveFromPositionIntervalAccumulation`; the total is adjusted with `Sub`. -/
def removeFromPositionInterval (st : Store) (h : Handle) (pos : String) (n : Int) (iv : DecCoins) :
    Store × Handle × Res Unit :=
  if ¬ (0 < n) then (st, h, .err) else
  match st.getPos h.name pos with
  | none => (st, h, .err)
  | some p =>
    if n > p.shares then (st, h, .err) else
    match getTotalRewards h p with
    | none => (st, h, .panic)
    | some unclaimed =>
      match Dec.sub p.shares n with
      | none => (st, h, .panic)
      | some sh => finishShares (st.setPos h.name pos ⟨sh, iv, unclaimed, p.opt⟩) h (-n)

def removeFromPosition (st : Store) (h : Handle) (pos : String) (n : Int) :=
  removeFromPositionInterval st h pos n h.value

/-- `UpdatePositionIntervalAccumulation`. -/
def updatePositionInterval (st : Store) (h : Handle) (pos : String) (n : Int) (iv : DecCoins) :
    Store × Handle × Res Unit :=
  if n = 0 then (st, h, .err)
  else if n < 0 then removeFromPositionInterval st h pos (-n) iv
  else addToPositionInterval st h pos n iv

def updatePosition (st : Store) (h : Handle) (pos : String) (n : Int) :=
  updatePositionInterval st h pos n h.value

/-- `SetPositionIntervalAccumulation`: only the snapshot changes. -/
def setPositionInterval (st : Store) (h : Handle) (pos : String) (iv : DecCoins) : Store × Handle × Res Unit :=
  match st.getPos h.name pos with
  | none => (st, h, .err)
  | some p => (st.setPos h.name pos ⟨p.shares, iv, p.unclaimed, p.opt⟩, h, .ok ())

/-- `ClaimRewards`: integer part to the caller, dust returned (dropped by callers); the record is
reset to (shares, cached value, no unclaimed) or removed when it holds no shares. -/
def claimRewards (st : Store) (h : Handle) (pos : String) :
    Store × Handle × Res (List (String × Int) × DecCoins) :=
  match st.getPos h.name pos with
  | none => (st, h, .err)
  | some p =>
    match getTotalRewards h p with
    | none => (st, h, .panic)
    | some total =>
      match truncateDecimal total with
      | none => (st, h, .panic)
      | some (tc, dust) =>
        if p.shares = 0 then (st.delPos h.name pos, h, .ok (tc, dust))
        else (st.setPos h.name pos ⟨p.shares, h.value, [], p.opt⟩, h, .ok (tc, dust))

/-- `DeletePosition`: claim, delete the key, CACHED total −= shares (`SubMut`, range-checked after
the mutation), write cached value + total; returns integer part (as DecCoins) + dust. -/
def deletePosition (st : Store) (h : Handle) (pos : String) : Store × Handle × Res DecCoins :=
  match st.getPos h.name pos with
  | none => (st, h, .err)
  | some p =>
    match claimRewards st h pos with
    | (st1, h1, .err) => (st1, h1, .err)
    | (st1, h1, .panic) => (st1, h1, .panic)
    | (st1, h1, .ok (tc, dust)) =>
      let st2 := st1.delPos h1.name pos
      let h2 := { h1 with total := h1.total - p.shares }
      match chkDec h2.total with
      | none => (st2, h2, .panic)
      | some _ =>
        match setAccumulator st2 h2.name h2.value h2.total with
        | (st3, false) => (st3, h2, .err)
        | (st3, true) =>
          match add (tc.map (fun c => (c.1, c.2 * P18))) dust with
          | none => (st3, h2, .panic)
          | some out => (st3, h2, .ok out)

/-- `AddToUnclaimedRewards`. -/
def addToUnclaimedRewards (st : Store) (h : Handle) (pos : String) (amt : DecCoins) : Store × Handle × Res Unit :=
  match st.getPos h.name pos with
  | none => (st, h, .err)
  | some p =>
    if anyNeg amt then (st, h, .err) else
    match add p.unclaimed amt with
    | none => (st, h, .panic)
    | some u => (st.setPos h.name pos ⟨p.shares, p.snap, u, p.opt⟩, h, .ok ())

/-! getters -/
def getPosition (st : Store) (h : Handle) (pos : String) : Option Record := st.getPos h.name pos
def getPositionSize (st : Store) (h : Handle) (pos : String) : Option Int := (st.getPos h.name pos).map (·.shares)
def hasPosition (st : Store) (h : Handle) (pos : String) : Bool := (st.getPos h.name pos).isSome
def getValue (h : Handle) : DecCoins := h.value
def getTotalShares (h : Handle) : Int := h.total

/-! ### per-denom amount, ordering invariant (executable; used by the discipline predicate and the specs) -/

/-- amount of denom `d` (sum over the entries carrying it; at most one when `sorted`). -/
def amt : List (String × Int) → String → Int
  | [], _ => 0
  | (e, x) :: t, d => (if e = d then x else 0) + amt t d

/-- sdk normal-form ordering: strictly increasing denoms. -/
def sorted : List (String × Int) → Bool
  | [] => true
  | (e, _) :: t => t.all (fun c => decide (e < c.1)) && sorted t

/-! ### histories: operations through a FRESHLY FETCHED handle, transactional panics -/

/-- one API call; `iv = none` is the plain variant (interval value := the handle's cached value). -/
inductive Op where
  | make (acc : String)
  | grow (acc : String) (g : DecCoins)
  | newPos (acc pos : String) (shares : Int) (iv : Option DecCoins) (opt : Bool)
  | addPos (acc pos : String) (n : Int) (iv : Option DecCoins)
  | remPos (acc pos : String) (n : Int) (iv : Option DecCoins)
  | updPos (acc pos : String) (n : Int) (iv : Option DecCoins)
  | setInt (acc pos : String) (iv : DecCoins)
  | addUnclaimed (acc pos : String) (a : DecCoins)
  | claim (acc pos : String)
  | delete (acc pos : String)
deriving DecidableEq, Repr

def Op.acc : Op → String
  | .make a | .grow a _ | .newPos a _ _ _ _ | .addPos a _ _ _ | .remPos a _ _ _ | .updPos a _ _ _
  | .setInt a _ _ | .addUnclaimed a _ _ | .claim a _ | .delete a _ => a

def ivOr (iv : Option DecCoins) (h : Handle) : DecCoins :=
  match iv with
  | some v => v
  | none => h.value

def unitRes {α : Type} : Res α → Res Unit
  | .ok _ => .ok ()
  | .err => .err
  | .panic => .panic

/-- the method call of `op` on handle `h` (return values of claim/delete dropped). -/
def applyH (st : Store) (h : Handle) : Op → Store × Handle × Res Unit
  | .make _ => (st, h, .err)
  | .grow _ g => addToAccumulator st h g
  | .newPos _ pos sh iv opt => newPositionInterval st h pos sh (ivOr iv h) opt
  | .addPos _ pos n iv => addToPositionInterval st h pos n (ivOr iv h)
  | .remPos _ pos n iv => removeFromPositionInterval st h pos n (ivOr iv h)
  | .updPos _ pos n iv => updatePositionInterval st h pos n (ivOr iv h)
  | .setInt _ pos iv => setPositionInterval st h pos iv
  | .addUnclaimed _ pos a => addToUnclaimedRewards st h pos a
  | .claim _ pos => let (s, h', r) := claimRewards st h pos; (s, h', unitRes r)
  | .delete _ pos => let (s, h', r) := deletePosition st h pos; (s, h', unitRes r)

/-- `GetAccumulator` then the method (the "fresh handle" discipline). -/
def stepFresh (st : Store) (op : Op) : Store × Res Unit :=
  match op with
  | .make a => makeAccumulator st a
  | op =>
    match getAccumulator st op.acc with
    | none => (st, .err)
    | some h => let (s, _, r) := applyH st h op; (s, r)

/-- transaction semantics of the callers: a panic reverts the (cache-wrapped) store. -/
def stepTx (st : Store) (op : Op) : Store :=
  match stepFresh st op with
  | (_, .panic) => st
  | (s, _) => s

def run (st : Store) (ops : List Op) : Store := ops.foldl stepTx st

def ivSorted : Option DecCoins → Bool
  | some v => sorted v
  | none => true

/-- the property's quantifier, per op in its pre-state: a position name is created only while it
does not exist; DecCoins arguments are in sdk order. -/
def admissible (st : Store) : Op → Bool
  | .make _ => true
  | .grow _ g => sorted g
  | .newPos acc pos _ iv _ => (st.getPos acc pos).isNone && ivSorted iv
  | .addPos _ _ _ iv | .remPos _ _ _ iv | .updPos _ _ _ iv => ivSorted iv
  | .setInt _ _ iv => sorted iv
  | .addUnclaimed _ _ a => sorted a
  | .claim _ _ | .delete _ _ => true

/-- discipline of a whole history (decidable): every op admissible in the state it is issued in. -/
def disciplined : Store → List Op → Bool
  | _, [] => true
  | st, op :: t => admissible st op && disciplined (stepTx st op) t

end OsmoVerif.Accum
