/- line-protocol dispatch for the `num` engine: `num <op> <a> <b>` -/
import OsmoVerif.Model.Num
namespace OsmoVerif.Num

def showOpt : Option Int → String
  | some v => s!"ok {v}"
  | none => "panic"

def bin (f : Int → Int → Option Int) (args : List String) : String :=
  match args with
  | [a, b] => match a.toInt?, b.toInt? with
    | some x, some y => showOpt (f x y)
    | _, _ => "bad-op"
  | _ => "bad-op"

def un (f : Int → Option Int) (args : List String) : String :=
  match args with
  | [a] => match a.toInt? with
    | some x => showOpt (f x)
    | _ => "bad-op"
  | _ => "bad-op"

def binNat (f : Int → Nat → Option Int) (args : List String) : String :=
  match args with
  | [a, b] => match a.toInt?, b.toNat? with
    | some x, some y => showOpt (f x y)
    | _, _ => "bad-op"
  | _ => "bad-op"

open Chain in
def parseCOp : String → Option COp
  | "add" => some .add | "sub" => some .sub | "mul" => some .mul | "quo" => some .quo
  | "mulTruncate" => some .mulTruncate | "mulRoundUp" => some .mulRoundUp
  | "quoTruncate" => some .quoTruncate | "quoRoundUp" => some .quoRoundUp
  | "neg" => some .neg | "abs" => some .abs | "ceil" => some .ceil | "clone" => some .clone
  | "truncateDec" => some .truncateDec | "chopPrecision" => some .chopPrecision | "powerInteger" => some .powerInteger
  | "addMut" => some .addMut | "subMut" => some .subMut | "mulMut" => some .mulMut | "quoMut" => some .quoMut
  | "quoTruncateMut" => some .quoTruncateMut | "quoRoundUpMut" => some .quoRoundUpMut
  | "quoRoundUpNextIntMut" => some .quoRoundUpNextIntMut
  | "negMut" => some .negMut | "absMut" => some .absMut | "ceilMut" => some .ceilMut
  | "chopPrecisionMut" => some .chopPrecisionMut | "powerIntegerMut" => some .powerIntegerMut
  | _ => none

def parseInts : List String → Option (List Int)
  | [] => some []
  | s :: t => match s.toInt?, parseInts t with
    | some x, some r => some (x :: r)
    | _, _ => none

/-- steps: groups of four tokens `op dst r a` -/
def parseSteps : List String → Option (List (Chain.COp × Nat × Nat × Int))
  | [] => some []
  | o :: d :: r :: a :: rest =>
    match parseCOp o, d.toNat?, r.toNat?, a.toInt?, parseSteps rest with
    | some o, some d, some r, some a, some t => some ((o, d, r, a) :: t)
    | _, _, _, _, _ => none
  | _ => none

/-- `chain k v0 … v(k-1) op dst r a …` → `ok v0 … v(k-1)` (final pool) or `panic i`. -/
def chainLine (args : List String) : String :=
  match args with
  | k :: rest =>
    match k.toNat? with
    | some k =>
      match parseInts (rest.take k), parseSteps (rest.drop k) with
      | some pool, some steps =>
        if pool.length = k then
          match Chain.run pool steps 0 with
          | .inl p => " ".intercalate ("ok" :: p.map toString)
          | .inr i => s!"panic {i}"
        else "bad-op"
      | _, _ => "bad-op"
    | none => "bad-op"
  | _ => "bad-op"

def stepNum (op : String) (args : List String) : String :=
  match op with
  | "chain" => chainLine args
  | "add" => bin BigDec.add args
  | "sub" => bin BigDec.sub args
  | "mul" => bin BigDec.mul args
  | "mulDec" => bin BigDec.mulDec args
  | "mulTruncate" => bin BigDec.mulTruncate args
  | "mulTruncateDec" => bin BigDec.mulTruncateDec args
  | "mulRoundUp" => bin BigDec.mulRoundUp args
  | "mulRoundUpDec" => bin BigDec.mulRoundUpDec args
  | "mulInt" => bin BigDec.mulInt args
  | "quo" => bin BigDec.quo args
  | "quoRaw" => bin BigDec.quoRaw args
  | "quoTruncate" => bin BigDec.quoTruncate args
  | "quoTruncateDec" => bin BigDec.quoTruncateDec args
  | "quoRoundUp" => bin BigDec.quoRoundUp args
  | "quoByDecRoundUp" => bin BigDec.quoByDecRoundUp args
  | "quoRoundUpMut" => bin BigDec.quoRoundUpMut args
  | "quoRoundUpNextIntMut" => bin BigDec.quoRoundUpNextIntMut args
  | "quoInt" => bin BigDec.quoInt args
  | "ceil" => un BigDec.ceil args
  | "truncateInt" => un BigDec.truncateInt args
  | "truncateDec" => un BigDec.truncateDec args
  | "roundInt" => un BigDec.roundInt args
  | "dec" => un BigDec.dec args
  | "decRoundUp" => un BigDec.decRoundUp args
  | "decWithPrecision" => binNat BigDec.decWithPrecision args
  | "chopPrecision" => binNat BigDec.chopPrecision args
  | "fromDec" => un BigDec.fromDec args
  | "powerInteger" => binNat BigDec.powerInteger args
  | "strRoundtrip" => un (fun a => BigDec.fromStr (BigDec.toStr a)) args
  | "toStr" => match args with
      | [a] => match a.toInt? with
        | some x => "ok " ++ BigDec.toStr x
        | none => "bad-op"
      | _ => "bad-op"
  | "fromStr" => match args with
      | [s] => showOpt (BigDec.fromStr s)
      | _ => "bad-op"
  | "marshalRoundtrip" => un BigDec.marshalRoundtrip args
  | "d.add" => bin Dec.add args
  | "d.sub" => bin Dec.sub args
  | "d.mul" => bin Dec.mul args
  | "d.mulTruncate" => bin Dec.mulTruncate args
  | "d.mulRoundUp" => bin Dec.mulRoundUp args
  | "d.mulInt" => bin Dec.mulInt args
  | "d.quo" => bin Dec.quo args
  | "d.quoTruncate" => bin Dec.quoTruncate args
  | "d.quoRoundUp" => bin Dec.quoRoundUp args
  | "d.quoInt" => bin Dec.quoInt args
  | "d.ceil" => un Dec.ceil args
  | "d.truncateInt" => un Dec.truncateInt args
  | "d.roundInt" => un Dec.roundInt args
  | "d.truncateDec" => un Dec.truncateDec args
  | _ => "bad-op"

end OsmoVerif.Num
