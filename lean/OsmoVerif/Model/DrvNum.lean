/- line-protocol dispatch for the `num` engine: `num <op> <a> <b>` -/
import OsmoVerif.Model.Num
import OsmoVerif.Model.NumInt
namespace OsmoVerif.Num

def showOpt : Option Int → String
  | some v => s!"ok {v}"
  | none => "panic"

def bin (f : Int → Int → Option Int) (args : List String) : String :=
  match args with
  | [a, b] => match a.toInt?, b.toInt? with
    | some x, some y => showOpt (f x y)
    | _, _ => "bad-op"
  | _ => "bad-op"

def un (f : Int → Option Int) (args : List String) : String :=
  match args with
  | [a] => match a.toInt? with
    | some x => showOpt (f x)
    | _ => "bad-op"
  | _ => "bad-op"

def binNat (f : Int → Nat → Option Int) (args : List String) : String :=
  match args with
  | [a, b] => match a.toInt?, b.toNat? with
    | some x, some y => showOpt (f x y)
    | _, _ => "bad-op"
  | _ => "bad-op"

open Chain in
def parseCOp : String → Option COp
  | "add" => some .add | "sub" => some .sub | "mul" => some .mul | "quo" => some .quo
  | "mulTruncate" => some .mulTruncate | "mulRoundUp" => some .mulRoundUp
  | "quoTruncate" => some .quoTruncate | "quoRoundUp" => some .quoRoundUp
  | "neg" => some .neg | "abs" => some .abs | "ceil" => some .ceil | "clone" => some .clone
  | "truncateDec" => some .truncateDec | "chopPrecision" => some .chopPrecision | "powerInteger" => some .powerInteger
  | "addMut" => some .addMut | "subMut" => some .subMut | "mulMut" => some .mulMut | "quoMut" => some .quoMut
  | "quoTruncateMut" => some .quoTruncateMut | "quoRoundUpMut" => some .quoRoundUpMut
  | "quoRoundUpNextIntMut" => some .quoRoundUpNextIntMut
  | "negMut" => some .negMut | "absMut" => some .absMut | "ceilMut" => some .ceilMut
  | "chopPrecisionMut" => some .chopPrecisionMut | "powerIntegerMut" => some .powerIntegerMut
  | _ => none

def parseInts : List String → Option (List Int)
  | [] => some []
  | s :: t => match s.toInt?, parseInts t with
    | some x, some r => some (x :: r)
    | _, _ => none

/-- steps: groups of four tokens `op dst r a` -/
def parseSteps : List String → Option (List (Chain.COp × Nat × Nat × Int))
  | [] => some []
  | o :: d :: r :: a :: rest =>
    match parseCOp o, d.toNat?, r.toNat?, a.toInt?, parseSteps rest with
    | some o, some d, some r, some a, some t => some ((o, d, r, a) :: t)
    | _, _, _, _, _ => none
  | _ => none

/-- `chain k v0 … v(k-1) op dst r a …` → `ok v0 … v(k-1)` (final pool) or `panic i`. -/
def chainLine (args : List String) : String :=
  match args with
  | k :: rest =>
    match k.toNat? with
    | some k =>
      match parseInts (rest.take k), parseSteps (rest.drop k) with
      | some pool, some steps =>
        if pool.length = k then
          match Chain.run pool steps 0 with
          | .inl p => " ".intercalate ("ok" :: p.map toString)
          | .inr i => s!"panic {i}"
        else "bad-op"
      | _, _ => "bad-op"
    | none => "bad-op"
  | _ => "bad-op"

/-! ### integer side (Model/NumInt.lean): `bi.*` osmomath.BigInt, `si.*` sdk Int, BigDec ↔ integer ops -/

def showOptErr : Option Int → String
  | some v => s!"ok {v}"
  | none => "err"

def showRes : Res → String
  | .ok v => s!"ok {v}"
  | .err => "err"
  | .panic => "panic"

def hexVal (c : Char) : Option Nat :=
  if '0' ≤ c ∧ c ≤ '9' then some (c.toNat - '0'.toNat)
  else if 'a' ≤ c ∧ c ≤ 'f' then some (c.toNat - 'a'.toNat + 10)
  else none

/-- strings travel hex-encoded (two lower-case hex digits per byte), so that any byte can be sent -/
def hexDecode : List Char → Option (List Char)
  | [] => some []
  | a :: b :: rest =>
    match hexVal a, hexVal b, hexDecode rest with
    | some x, some y, some t => some (Char.ofNat (x * 16 + y) :: t)
    | _, _, _ => none
  | _ => none

/-- `op [hex]` (no argument = the empty string) -/
def strArg (f : List Char → String) (args : List String) : String :=
  match args with
  | [] => f []
  | [h] => match hexDecode h.toList with
    | some cs => f cs
    | none => "bad-op"
  | _ => "bad-op"

def tern (f : Int → Int → Int → String) (args : List String) : String :=
  match args with
  | [a, b, c] => match a.toInt?, b.toInt?, c.toInt? with
    | some x, some y, some z => f x y z
    | _, _, _ => "bad-op"
  | _ => "bad-op"

def unStr (f : Int → String) (args : List String) : String :=
  match args with
  | [a] => match a.toInt? with
    | some x => f x
    | none => "bad-op"
  | _ => "bad-op"

def stepNumInt (op : String) (args : List String) : Option String :=
  match op with
  -- BigDec ↔ integer
  | "mulInt64" => some (bin BigDec.mulInt64 args)
  | "quoInt64" => some (bin BigDec.quoInt64 args)
  | "truncateInt64" => some (un BigDec.truncateInt64 args)
  | "roundInt64" => some (un BigDec.roundInt64 args)
  | "isInteger" => some (unStr (fun a => if BigDec.isInteger a then "ok 1" else "ok 0") args)
  | "newFromBigIntWithPrec" | "newFromBigIntMutWithPrec" | "newFromIntWithPrec" | "newWithPrec" =>
    some (bin BigDec.fromIntWithPrec args)
  | "fromSDKInt" => some (un (fun i => BigDec.fromIntWithPrec i 0) args)
  | "fromDecMulDec" => some (bin BigDec.fromDecMulDec args)
  | "divIntByU64" => some (tern (fun i u r => showRes (divIntByU64 i u r)) args)
  | "bd.unmarshal" => some (strArg (fun cs => showOptErr (BigDec.unmarshalChars cs)) args)
  -- osmomath.BigInt
  | "bi.new" => some (un BigInt.ofBig args)
  | "bi.withDecimal" => some (bin BigInt.withDecimal args)
  | "bi.add" | "bi.addRaw" => some (bin BigInt.add args)
  | "bi.sub" | "bi.subRaw" => some (bin BigInt.sub args)
  | "bi.mul" | "bi.mulRaw" => some (bin BigInt.mul args)
  | "bi.quo" | "bi.quoRaw" => some (bin BigInt.quo args)
  | "bi.mod" | "bi.modRaw" => some (bin BigInt.mod args)
  | "bi.neg" => some (un BigInt.neg args)
  | "bi.abs" => some (un BigInt.abs args)
  | "bi.min" => some (bin BigInt.min args)
  | "bi.max" => some (bin BigInt.max args)
  | "bi.toDec" => some (un BigInt.toDec args)
  | "bi.int64" => some (un BigInt.int64 args)
  | "bi.uint64" => some (un BigInt.uint64 args)
  | "bi.cmp" | "si.cmp" => some (bin (fun a b => some (BigInt.cmp a b)) args)
  | "bi.fromStr" | "bi.unmarshal" => some (strArg (fun cs => showOptErr (BigInt.fromChars cs)) args)
  | "bi.toStr" => some (unStr (fun a => "ok " ++ String.ofList (BigInt.toChars a)) args)
  | "bi.size" => some (unStr (fun a => s!"ok {BigInt.size a}") args)
  | "bi.strRoundtrip" | "bi.marshalRoundtrip" => some (unStr (fun a => showOptErr (BigInt.fromChars (BigInt.toChars a))) args)
  -- sdk Int
  | "si.new" => some (un SInt.ofBig args)
  | "si.withDecimal" => some (bin SInt.withDecimal args)
  | "si.add" | "si.addRaw" => some (bin SInt.add args)
  | "si.sub" | "si.subRaw" => some (bin SInt.sub args)
  | "si.mul" | "si.mulRaw" => some (bin SInt.mul args)
  | "si.quo" | "si.quoRaw" => some (bin SInt.quo args)
  | "si.mod" | "si.modRaw" => some (bin SInt.mod args)
  | "si.neg" => some (un BigInt.neg args)
  | "si.abs" => some (un BigInt.abs args)
  | "si.min" => some (bin BigInt.min args)
  | "si.max" => some (bin BigInt.max args)
  | "si.toLegacyDec" => some (un SInt.toLegacyDec args)
  | "si.int64" => some (un BigInt.int64 args)
  | "si.uint64" => some (un BigInt.uint64 args)
  | "si.fromStr" | "si.unmarshal" => some (strArg (fun cs => showOptErr (SInt.fromChars cs)) args)
  | "si.strRoundtrip" | "si.marshalRoundtrip" => some (unStr (fun a => showOptErr (SInt.fromChars (BigInt.toChars a))) args)
  -- LegacyDec ↔ integer
  | "d.mulInt64" => some (bin Dec.mulInt args)
  | "d.quoInt64" => some (bin Dec.quoInt args)
  | "d.truncateInt64" => some (un Dec.truncateInt64 args)
  | "d.roundInt64" => some (un Dec.roundInt64 args)
  | "d.newFromBigIntWithPrec" | "d.newFromIntWithPrec" | "d.newWithPrec" => some (bin Dec.fromIntWithPrec args)
  | _ => none


def stepNum (op : String) (args : List String) : String :=
  match op with
  | "chain" => chainLine args
  | "add" => bin BigDec.add args
  | "sub" => bin BigDec.sub args
  | "mul" => bin BigDec.mul args
  | "mulDec" => bin BigDec.mulDec args
  | "mulTruncate" => bin BigDec.mulTruncate args
  | "mulTruncateDec" => bin BigDec.mulTruncateDec args
  | "mulRoundUp" => bin BigDec.mulRoundUp args
  | "mulRoundUpDec" => bin BigDec.mulRoundUpDec args
  | "mulInt" => bin BigDec.mulInt args
  | "quo" => bin BigDec.quo args
  | "quoRaw" => bin BigDec.quoRaw args
  | "quoTruncate" => bin BigDec.quoTruncate args
  | "quoTruncateDec" => bin BigDec.quoTruncateDec args
  | "quoRoundUp" => bin BigDec.quoRoundUp args
  | "quoByDecRoundUp" => bin BigDec.quoByDecRoundUp args
  | "quoRoundUpMut" => bin BigDec.quoRoundUpMut args
  | "quoRoundUpNextIntMut" => bin BigDec.quoRoundUpNextIntMut args
  | "quoInt" => bin BigDec.quoInt args
  | "ceil" => un BigDec.ceil args
  | "truncateInt" => un BigDec.truncateInt args
  | "truncateDec" => un BigDec.truncateDec args
  | "roundInt" => un BigDec.roundInt args
  | "dec" => un BigDec.dec args
  | "decRoundUp" => un BigDec.decRoundUp args
  | "decWithPrecision" => binNat BigDec.decWithPrecision args
  | "chopPrecision" => binNat BigDec.chopPrecision args
  | "fromDec" => un BigDec.fromDec args
  | "powerInteger" => binNat BigDec.powerInteger args
  | "strRoundtrip" => un (fun a => BigDec.fromStr (BigDec.toStr a)) args
  | "toStr" => match args with
      | [a] => match a.toInt? with
        | some x => "ok " ++ BigDec.toStr x
        | none => "bad-op"
      | _ => "bad-op"
  | "fromStr" => match args with
      | [s] => showOpt (BigDec.fromStr s)
      | _ => "bad-op"
  | "marshalRoundtrip" => un BigDec.marshalRoundtrip args
  | "d.add" => bin Dec.add args
  | "d.sub" => bin Dec.sub args
  | "d.mul" => bin Dec.mul args
  | "d.mulTruncate" => bin Dec.mulTruncate args
  | "d.mulRoundUp" => bin Dec.mulRoundUp args
  | "d.mulInt" => bin Dec.mulInt args
  | "d.quo" => bin Dec.quo args
  | "d.quoTruncate" => bin Dec.quoTruncate args
  | "d.quoRoundUp" => bin Dec.quoRoundUp args
  | "d.quoInt" => bin Dec.quoInt args
  | "d.ceil" => un Dec.ceil args
  | "d.truncateInt" => un Dec.truncateInt args
  | "d.roundInt" => un Dec.roundInt args
  | "d.truncateDec" => un Dec.truncateDec args
  | _ => (stepNumInt op args).getD "bad-op"

end OsmoVerif.Num
