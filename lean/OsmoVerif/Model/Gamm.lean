/-
Model of the classic-pool math of x/gamm: balancer (`pool-models/balancer/{amm,pool}.go`), stableswap
(`pool-models/stableswap/{amm,pool}.go`) and the shared LP helpers (`internal/cfmm_common/lp.go`).

Pools are plain values.  Numbers are raw integers: sdk `Int` as is, `Dec` ·10^18, `BigDec` ·10^36; the
arithmetic is `Num.Dec.*` / `Num.BigDec.*` (bit-exact, C12) and `MathM.pow` / `MathM.binarySearch*` (C13).
A Go error is `Fault.err`, a Go panic is `Fault.panic`; nothing is totalised.

Preconditions under which the model is the code (the engine only generates such inputs; they are the
invariants of `sdk.Coins` and of a pool built by `NewBalancerPool` / `NewStableswapPool`):
  * pool assets are sorted by denom without duplicates (`getPoolAssetAndIndex` is a binary search);
  * every `tokensIn`/`tokensOut` argument is a valid `sdk.Coins`: sorted, no duplicates, positive amounts,
    valid denoms;
  * stableswap scaling factors are < 2^63.
NOTE (checked by the translator, `Gen.GammMath.MaxRatioGuardDeclared = false`): this tree has NO
`MaxInRatio` / `MaxOutRatio` guard; the only domain guards of the balancer math are those of `osmomath.Pow`
(0 < base < 2), so `Pow` bases below 0.5 are reachable (amount in > reserve, single-asset exit of more
than about half a reserve).
Core only.
-/
import OsmoVerif.Model.Math
import OsmoVerif.Gen.GammMath

namespace OsmoVerif.GammMath
open OsmoVerif.Num OsmoVerif.MathM OsmoVerif.Gen

inductive Fault where
  | err      -- the Go function returned an error
  | panic    -- the Go function panicked
  deriving DecidableEq, Repr

abbrev R := Except Fault

/-- lift an osmomath operation: `none` is a Go panic. -/
def pn {α : Type} : Option α → R α
  | some a => .ok a
  | none => .error .panic

def er {α : Type} : R α := .error .err

/-- sdk `Int` arithmetic panics beyond 256 bits. -/
def iadd (a b : Int) : R Int := pn (chkInt (a + b))
def isub (a b : Int) : R Int := pn (chkInt (a - b))
def imul (a b : Int) : R Int := pn (chkInt (a * b))

/-- `Int.ToLegacyDec()` (no range check in the SDK). -/
def toDec (i : Int) : Int := i * P18

abbrev Coins := List (String × Int)

def amountOf (cs : Coins) (d : String) : Int :=
  match cs.find? (·.1 = d) with
  | some c => c.2
  | none => 0

/-- the valid `sdk.Coins` over a sorted denom universe with the given amounts (zero amounts dropped). -/
def coinsOver (denoms : List String) (f : String → Int) : Coins :=
  denoms.filterMap fun d => if f d = 0 then none else some (d, f d)

def showCoins (cs : Coins) : String := ",".intercalate (cs.map fun c => s!"{c.1}={c.2}")

/-! ## balancer -/

structure BalAsset where
  denom : String
  amount : Int
  weight : Int      -- internal weight = user weight · GuaranteedWeightPrecision
  deriving Repr, DecidableEq

structure BalPool where
  assets : List BalAsset     -- sorted by denom
  totalWeight : Int
  totalShares : Int
  swapFee : Int              -- Dec, `PoolParams.SwapFee`
  exitFee : Int              -- Dec, `PoolParams.ExitFee`
  deriving Repr, DecidableEq

/-- `SetInitialPoolAssets`: user weights are scaled by `GuaranteedWeightPrecision`; total weight is their sum. -/
def mkBalPool (assets : List (String × Int × Int)) (totalShares swapFee exitFee : Int) : BalPool :=
  let as := assets.map fun (d, r, w) => (⟨d, r, w * GammMath.GuaranteedWeightPrecision⟩ : BalAsset)
  ⟨as, as.foldl (fun s a => s + a.weight) 0, totalShares, swapFee, exitFee⟩

/-- `getPoolAssetByDenom` (linear) — equal to `getPoolAssetAndIndex` (binary search) on a sorted pool,
except that the latter rejects the empty denom. -/
def findAsset (as : List BalAsset) (d : String) : Option BalAsset := as.find? (·.denom = d)

def balLiquidity (p : BalPool) : Coins :=
  p.assets.filterMap fun a => if a.amount = 0 then none else some (a.denom, a.amount)

/-- `solveConstantFunctionInvariant` (all arguments Dec):
`balanceUnknown · (1 − (before/after)^(wFixed/wUnknown))`. -/
def solveCFI (bBefore bAfter wFixed bUnknown wUnknown : Int) : Option Int := do
  let wr ← Dec.quo wFixed wUnknown
  let y ← Dec.quo bBefore bAfter
  let p ← pow y wr
  let par ← Dec.sub P18 p
  Dec.mul par bUnknown

/-- the final Int conversion of exact-in results: `TruncateInt` + positivity. -/
def outTrunc (amountDec : Int) : R Int := do
  let t ← pn (Dec.truncateInt amountDec)
  if t > 0 then pure t else er

/-- the final Int conversion of exact-out results: `Ceil().TruncateInt()` + positivity. -/
def inCeil (amountDec : Int) : R Int := do
  let c ← pn (Dec.ceil amountDec)
  let t ← pn (Dec.truncateInt c)
  if t > 0 then pure t else er

/-- exact-in: only `tokenIn · (1 − spread)` enters the curve. -/
def balAmountInAfterFee (amt spread : Int) : Option Int :=
  (Dec.sub P18 spread).bind fun om => Dec.mul (toDec amt) om

/-- the Dec value `CalcOutAmtGivenIn` truncates. -/
def balOutDec (aIn aOut : BalAsset) (amt spread : Int) : Option Int := do
  let afterFee ← balAmountInAfterFee amt spread
  let bal := toDec aIn.amount
  let post ← Dec.add afterFee bal
  solveCFI bal post (toDec aIn.weight) (toDec aOut.amount) (toDec aOut.weight)

/-- `Pool.CalcOutAmtGivenIn`. -/
def balCalcOut (p : BalPool) (tokensIn : Coins) (outDenom : String) (spread : Int) : R Int :=
  match tokensIn with
  | [(dIn, amt)] =>
    match findAsset p.assets dIn, findAsset p.assets outDenom with
    | some aIn, some aOut => do
      let out ← pn (balOutDec aIn aOut amt spread)
      outTrunc out
    | _, _ => er
  | _ => er

/-- curve input for an exact amount out (Dec, before the spread factor is added). -/
def balCurveIn (aOut aIn : BalAsset) (amt : Int) : Option Int := do
  let bal := toDec aOut.amount
  let post ← Dec.sub bal (toDec amt)
  let x ← solveCFI bal post (toDec aOut.weight) (toDec aIn.amount) (toDec aIn.weight)
  pure (-x)

/-- exact-out: the curve input is divided by `(1 − spread)` (half-even `Quo`), the Int conversion rounds up. -/
def balInDec (aOut aIn : BalAsset) (amt spread : Int) : Option Int := do
  let x ← balCurveIn aOut aIn amt
  let om ← Dec.sub P18 spread
  Dec.quo x om

/-- `Pool.CalcInAmtGivenOut`. -/
def balCalcIn (p : BalPool) (tokensOut : Coins) (inDenom : String) (spread : Int) : R Int :=
  match tokensOut with
  | [(dOut, amt)] =>
    match findAsset p.assets dOut, findAsset p.assets inDenom with
    | some aOut, some aIn => do
      let x ← pn (balInDec aOut aIn amt spread)
      inCeil x
    | _, _ => er
  | _ => er

def setAmount (as : List BalAsset) (d : String) (amt : Int) : List BalAsset :=
  as.map fun a => if a.denom = d then { a with amount := amt } else a

/-- `UpdatePoolAssetBalances(sdk.NewCoins(in, out))` as used by `applySwap`: `NewCoins` panics on a negative
amount and on duplicate denoms, drops zero amounts; the remaining balances are written. -/
def balApplySwap (p : BalPool) (dIn : String) (amtIn : Int) (dOut : String) (amtOut : Int) : R BalPool :=
  match findAsset p.assets dIn, findAsset p.assets dOut with
  | some aIn, some aOut => do
    let nIn ← iadd aIn.amount amtIn
    let nOut ← isub aOut.amount amtOut
    if dIn = dOut then .error .panic          -- duplicate denoms in sdk.NewCoins
    else if nIn < 0 ∨ nOut < 0 then .error .panic
    else
      let as1 := if nIn = 0 then p.assets else setAmount p.assets dIn nIn
      let as2 := if nOut = 0 then as1 else setAmount as1 dOut nOut
      pure { p with assets := as2 }
  | _, _ => er

/-- `SwapOutAmtGivenIn`. -/
def balSwapOut (p : BalPool) (tokensIn : Coins) (outDenom : String) (spread : Int) : R (Int × BalPool) := do
  let out ← balCalcOut p tokensIn outDenom spread
  match tokensIn with
  | [(dIn, amt)] => do
    let p' ← balApplySwap p dIn amt outDenom out
    pure (out, p')
  | _ => er

/-- `SwapInAmtGivenOut`. -/
def balSwapIn (p : BalPool) (tokensOut : Coins) (inDenom : String) (spread : Int) : R (Int × BalPool) := do
  let tin ← balCalcIn p tokensOut inDenom spread
  match tokensOut with
  | [(dOut, amt)] => do
    let p' ← balApplySwap p inDenom tin dOut amt
    pure (tin, p')
  | _ => er

/-- `feeRatio`: `1 − (1 − normalizedWeight)·spread`. -/
def feeRatio (nw spread : Int) : Option Int := do
  let a ← Dec.sub P18 nw
  let b ← Dec.mul a spread
  Dec.sub P18 b

/-- `calcPoolSharesOutGivenSingleAssetIn` (Dec arguments, Dec result). -/
def sharesOutGivenSingleIn (bal nw shares amt spread : Int) : Option Int := do
  let fr ← feeRatio nw spread
  let afterFee ← Dec.mul amt fr
  let post ← Dec.add bal afterFee
  let x ← solveCFI post bal nw shares P18
  pure (-x)

/-- `calcSingleAssetInGivenPoolSharesOut`. -/
def singleInGivenSharesOut (bal nw shares sharesOut spread : Int) : Option Int := do
  let post ← Dec.add shares sharesOut
  let x ← solveCFI post shares P18 bal nw
  let fr ← feeRatio nw spread
  Dec.quo (-x) fr

/-- `calcPoolSharesInGivenSingleAssetOut`. -/
def sharesInGivenSingleOut (bal nw shares amtOut spread exitFee : Int) : Option Int := do
  let fr ← feeRatio nw spread
  let outFee ← Dec.quo amtOut fr
  let post ← Dec.sub bal outFee
  let sharesIn ← solveCFI post bal nw shares P18
  let oe ← Dec.sub P18 exitFee
  Dec.quo sharesIn oe

/-- `Pool.calcSingleAssetJoin`. -/
def balCalcSingleAssetJoin (p : BalPool) (denom : String) (amt spread : Int) (asset : BalAsset)
    (totalShares : Int) : R Int :=
  if denom = "" then er else
  match findAsset p.assets denom with
  | none => er
  | some _ =>
    if p.totalWeight = 0 then er else do
      let nw ← pn (Dec.quo (toDec asset.weight) (toDec p.totalWeight))
      let r ← pn (sharesOutGivenSingleIn (toDec asset.amount) nw (toDec totalShares) (toDec amt) spread)
      pn (Dec.truncateInt r)

/-! ### `cfmm_common` (shared by both pool types) -/

/-- the share ratios of `MaximalExactRatioJoin`: `coin.ToLegacyDec().QuoInt(liquidity)` (truncated). -/
def shareRatios (liq : Coins) : Coins → Option (List Int)
  | [] => some []
  | c :: cs => do
    let r ← Dec.quoInt (toDec c.2) (amountOf liq c.1)
    let rs ← shareRatios liq cs
    pure (r :: rs)

def minRatio (rs : List Int) : Int := rs.foldl (fun m r => if r < m then r else m) GammMath.MaxSortableDec
def maxRatio (rs : List Int) : Int := rs.foldl (fun m r => if r > m then r else m) 0

/-- tokens of one coin used by the exact-ratio join: the whole coin at the minimal ratio, otherwise
`Ceil(minRatio · liquidity)`. -/
def usedAmount (liqAmt minR ratio coinAmt : Int) : Option Int :=
  if ratio = minR then some coinAmt
  else (Dec.mulInt minR liqAmt).bind fun x => (Dec.ceil x).bind Dec.truncateInt

def usedAmounts (liq : Coins) (minR : Int) : Coins → List Int → Option (List Int)
  | c :: cs, r :: rs => do
    let u ← usedAmount (amountOf liq c.1) minR r c.2
    let us ← usedAmounts liq minR cs rs
    pure (u :: us)
  | [], [] => some []
  | _, _ => none

/-- `MaximalExactRatioJoin`: shares minted and the tokens actually used (`tokensIn − remCoins`, per coin of
`tokensIn`, zero entries included). -/
def maximalExactRatioJoin (liq : Coins) (totalShares : Int) (tokensIn : Coins) : R (Int × List Int) := do
  let rs ← pn (shareRatios liq tokensIn)
  let minR := minRatio rs
  let maxR := maxRatio rs
  if minR = GammMath.MaxSortableDec then er else do
    let shares ← pn ((Dec.mulInt minR totalShares).bind Dec.truncateInt)
    if minR = maxR then pure (shares, tokensIn.map (·.2))
    else do
      let used ← pn (usedAmounts liq minR tokensIn rs)
      pure (shares, used)

/-- zip the used amounts back into coins, dropping zero entries (`tokensIn.Sub(remCoins...)`); a used amount
above the offered one would make `remCoins` negative and is reported by the callers' `IsAnyGT` check. -/
def joinedCoins (tokensIn : Coins) (used : List Int) : Coins :=
  (tokensIn.zip used).filterMap fun (c, u) => if u = 0 then none else some (c.1, u)

/-- one exit amount of `CalcExitPool`: `shareOutRatio.MulInt(amount).TruncateInt()`. -/
def refundedShares (exitingShares exitFee : Int) : Option Int :=
  if exitFee ≠ 0 then (Dec.sub P18 exitFee).bind fun o => Dec.mulInt o exitingShares
  else some (toDec exitingShares)

def exitAmount (shareOutRatio amount : Int) : Option Int :=
  (Dec.mulInt shareOutRatio amount).bind Dec.truncateInt

def exitCoins (ratio : Int) : Coins → R Coins
  | [] => pure []
  | (d, a) :: cs => do
    let x ← pn (exitAmount ratio a)
    if x ≤ 0 then exitCoins ratio cs
    else if x ≥ a then er
    else do
      let rest ← exitCoins ratio cs
      pure ((d, x) :: rest)

/-- `CalcExitPool`. -/
def calcExitPool (liq : Coins) (totalShares exitingShares exitFee : Int) : R Coins :=
  if exitingShares ≥ totalShares then er else do
    let refunded ← pn (refundedShares exitingShares exitFee)
    let ratio ← pn (Dec.quoInt refunded totalShares)
    exitCoins ratio liq

/-! ### balancer joins and exits -/

/-- add coins to the asset balances (`Int.Add` panics beyond 256 bits). -/
def balAddAmounts (as : List BalAsset) (cs : Coins) : R (List BalAsset) :=
  as.mapM fun a => do
    let n ← iadd a.amount (amountOf cs a.denom)
    pure { a with amount := n }

def sameDenoms (p : BalPool) (tokensIn : Coins) : Bool := tokensIn.all fun c => (findAsset p.assets c.1).isSome

/-- `CalcJoinPoolNoSwapShares`. -/
def balCalcJoinNoSwap (p : BalPool) (tokensIn : Coins) : R (Int × Coins) :=
  if ¬ sameDenoms p tokensIn then er
  else if tokensIn.length ≠ p.assets.length then er
  else do
    let (shares, used) ← maximalExactRatioJoin (balLiquidity p) p.totalShares tokensIn
    if (tokensIn.zip used).any (fun (c, u) => u > c.2) then er   -- `tokensJoined.IsAnyGT(tokensIn)` (unreachable, see Props.C04)
    else pure (shares, joinedCoins tokensIn used)

/-- `calcJoinSingleAssetTokensIn` over the intermediary liquidity. -/
def balJoinRemaining (p : BalPool) (assets : List BalAsset) (spread : Int) : Coins → Int → Int → R Int
  | [], _, acc => pure acc
  | (d, a) :: cs, totalShares, acc =>
    match findAsset assets d with
    | none => er
    | some asset => do
      let ts ← iadd totalShares acc
      let s ← balCalcSingleAssetJoin p d a spread asset ts
      let acc' ← iadd acc s
      balJoinRemaining p assets spread cs totalShares acc'

/-- `CalcJoinPoolShares`. -/
def balCalcJoin (p : BalPool) (tokensIn : Coins) (spread : Int) : R (Int × Coins) :=
  if ¬ sameDenoms p tokensIn then er else
  match tokensIn with
  | [(d, a)] =>
    match findAsset p.assets d with
    | none => er
    | some asset => do
      let s ← balCalcSingleAssetJoin p d a spread asset p.totalShares
      pure (s, tokensIn)
  | _ =>
    if tokensIn.length ≠ p.assets.length then er else do
      let (shares, joined) ← balCalcJoinNoSwap p tokensIn
      if joined = tokensIn then pure (shares, joined) else do
        -- intermediary liquidity: pool assets plus the coins joined so far
        let assets' ← balAddAmounts p.assets joined
        let newTotal ← iadd p.totalShares shares
        let remaining := coinsOver (tokensIn.map (·.1)) fun d => amountOf tokensIn d - amountOf joined d
        let more ← balJoinRemaining p assets' spread remaining newTotal 0
        let shares' ← iadd shares more
        pure (shares', coinsOver (tokensIn.map (·.1)) fun d => amountOf joined d + amountOf remaining d)

/-- `IncreaseLiquidity`. -/
def balIncrease (p : BalPool) (shares : Int) (coinsIn : Coins) : R BalPool :=
  if coinsIn.any (fun c => c.1 = "" ∨ (findAsset p.assets c.1).isNone) then .error .panic
  else do
    let as' ← balAddAmounts p.assets coinsIn
    let ts ← iadd p.totalShares shares
    pure { p with assets := as', totalShares := ts }

def balJoin (p : BalPool) (tokensIn : Coins) (spread : Int) : R (Int × BalPool) := do
  let (s, liq) ← balCalcJoin p tokensIn spread
  let p' ← balIncrease p s liq
  pure (s, p')

def balJoinNoSwap (p : BalPool) (tokensIn : Coins) : R (Int × BalPool) := do
  let (s, liq) ← balCalcJoinNoSwap p tokensIn
  let p' ← balIncrease p s liq
  pure (s, p')

def balCalcExit (p : BalPool) (exitingShares exitFee : Int) : R Coins :=
  calcExitPool (balLiquidity p) p.totalShares exitingShares exitFee

/-- `exitPool`: balances minus the exited coins (a zero balance is dropped by `Coins.Sub` and not written,
a negative one panics), total shares minus the exited shares (`sdk.NewCoin` panics on a negative amount). -/
def balExitApply (p : BalPool) (exited : Coins) (shares : Int) : R BalPool :=
  if p.assets.any (fun a => a.amount - amountOf exited a.denom < 0) then .error .panic
  else if exited.any (fun c => (findAsset p.assets c.1).isNone) then .error .panic
  else do
    let ts ← isub p.totalShares shares
    if ts < 0 then .error .panic else
    pure { p with assets := p.assets.map (fun a =>
                    let n := a.amount - amountOf exited a.denom
                    if n = 0 then a else { a with amount := n }),
                  totalShares := ts }

def balExit (p : BalPool) (exitingShares exitFee : Int) : R (Coins × BalPool) := do
  let cs ← balCalcExit p exitingShares exitFee
  let p' ← balExitApply p cs exitingShares
  pure (cs, p')

/-- `CalcTokenInShareAmountOut`. -/
def balTokenInShareOut (p : BalPool) (denom : String) (sharesOut spread : Int) : R Int :=
  if denom = "" then er else
  match findAsset p.assets denom with
  | none => er
  | some a => do
    let nw ← pn (Dec.quo (toDec a.weight) (toDec p.totalWeight))
    let x ← pn (singleInGivenSharesOut (toDec a.amount) nw (toDec p.totalShares) (toDec sharesOut) spread)
    let c ← pn (Dec.ceil x)
    let t ← pn (Dec.truncateInt c)
    if t > 0 then pure t else er

/-- keeper `JoinSwapShareAmountOut`'s pool part: `CalcTokenInShareAmountOut` + `IncreaseLiquidity`. -/
def balJoinSwapShareOut (p : BalPool) (denom : String) (sharesOut spread : Int) : R (Int × BalPool) := do
  let t ← balTokenInShareOut p denom sharesOut spread
  let p' ← balIncrease p sharesOut [(denom, t)]
  pure (t, p')

/-- `ExitSwapExactAmountOut` (uses the pool's own swap and exit fee). -/
def balExitSwapOut (p : BalPool) (denom : String) (amtOut maxShares : Int) : R (Int × BalPool) :=
  if denom = "" then er else
  match findAsset p.assets denom with
  | none => er
  | some a => do
    let nw ← pn (Dec.quo (toDec a.weight) (toDec p.totalWeight))
    let x ← pn (sharesInGivenSingleOut (toDec a.amount) nw (toDec p.totalShares) (toDec amtOut) p.swapFee p.exitFee)
    let s ← pn (Dec.truncateInt x)
    if ¬ s > 0 then er
    else if s > maxShares then er
    else if amtOut < 0 then .error .panic      -- sdk.NewCoins of a negative coin (unreachable: s > 0)
    else do
      let p' ← balExitApply p (if amtOut = 0 then [] else [(denom, amtOut)]) s
      pure (s, p')

/-! ## stableswap -/

structure SSAsset where
  denom : String
  amount : Int
  sf : Int          -- scaling factor (uint64)
  deriving Repr, DecidableEq

structure SSPool where
  assets : List SSAsset    -- sorted by denom (PoolLiquidity and ScalingFactors, same index)
  totalShares : Int
  deriving Repr, DecidableEq

def ssLiquidity (p : SSPool) : Coins := p.assets.map fun a => (a.denom, a.amount)

/-- `cfmmConstantMultiNoVY`: `x(x² + y² + w)`; panics unless x, y > 0 and w ≥ 0. -/
def cfmmNoVY (x y w : Int) : Option Int :=
  if ¬ x > 0 ∨ ¬ y > 0 ∨ w < 0 then none else do
    let x2 ← BigDec.mul x x
    let y2 ← BigDec.mul y y
    let s ← (BigDec.add x2 y2).bind fun t => BigDec.add t w
    BigDec.mul x s

/-- `cfmmConstantMultiNoV`: `xy(x² + y² + w)`. -/
def cfmmNoV (x y w : Int) : Option Int := (cfmmNoVY x y w).bind fun k => BigDec.mul k y

/-- `targetKCalculator`. -/
def targetK (x0 y0 w yf : Int) : Option Int := do
  let startK ← cfmmNoV x0 y0 w
  let yfRemoved ← BigDec.quo startK yf
  let yf2 ← BigDec.mul yf yf
  let x02 ← BigDec.mul x0 x0
  let inner ← (BigDec.add yf2 w).bind fun t => BigDec.add t x02
  let const ← BigDec.mul inner x0
  BigDec.sub yfRemoved const

/-- `iterKCalculator` (Horner form, leading coefficient −1). -/
def iterK (x0 w yf : Int) : Option (Int → Option Int) := do
  let quad ← BigDec.mulInt x0 3
  let q1 ← BigDec.mul quad x0
  let yf2 ← BigDec.mul yf yf
  let lin0 ← (BigDec.add q1 w).bind fun t => BigDec.add t yf2
  let lin := -lin0
  pure fun xf => do
    let xOut ← BigDec.sub x0 xf
    let r1 ← (BigDec.add (-xOut) quad).bind fun t => BigDec.mul t xOut
    (BigDec.add r1 lin).bind fun t => BigDec.mul t xOut

/-- `deriveUpperLowerXFinalReserveBounds`. -/
def deriveBounds (x y w yFinal : Int) : Option (Int × Int) := do
  let k0 ← cfmmNoV x yFinal w
  let k ← cfmmNoV x y w
  if k0 = 0 ∨ k = 0 then none else do
    let kRatio ← BigDec.quo k0 k
    if kRatio < P36 then do
      let q ← BigDec.quo x kRatio
      let up ← BigDec.ceil q
      pure (x, up)
    else if kRatio > P36 then pure (0, x)
    else pure (x, x)

/-- the solver's error tolerance (from the translator). -/
def solverTol : ErrTol := ⟨GammMath.solverAdditiveTolerance, GammMath.solverMultiplicativeTolerance, GammMath.solverRoundingDir⟩

/-- the search inside `solveCFMMBinarySearchMulti`, with everything it is run on. -/
structure SolverRun where
  lo : Int
  hi : Int
  target : Int
  f : Int → Option Int

def solverSetup (x y w yIn : Int) : Option SolverRun :=
  if ¬ x > 0 ∨ ¬ y > 0 ∨ w < 0 then none
  else if (yIn.natAbs : Int) ≥ y then none
  else do
    let yFinal ← BigDec.add y yIn
    let (lo, hi) ← deriveBounds x y w yFinal
    let t ← targetK x y w yFinal
    let f ← iterK x w yFinal
    pure ⟨lo, hi, t, f⟩

/-- `solveCFMMBinarySearchMulti`: every failure is a panic. -/
def solveCfmmMulti (x y w yIn : Int) : Option Int := do
  let run ← solverSetup x y w yIn
  match binarySearchBigDec run.f solverTol run.target GammMath.solverMaxIterations run.lo run.hi with
  | .found xEst => do
    let xOut ← BigDec.sub x xEst
    if (xOut.natAbs : Int) ≥ x then none else pure xOut
  | _ => none

/-- `solveCfmm`: `w` = sum of the squares of the remaining reserves. -/
def sumSquares (rs : List Int) : Option Int :=
  rs.foldlM (fun acc r => (BigDec.mul r r).bind (BigDec.add acc)) 0

def solveCfmm (x y : Int) (rem : List Int) (yIn : Int) : Option Int :=
  (sumSquares rem).bind fun w => solveCfmmMulti x y w yIn

/-- `DivIntByU64ToBigDec`. `dir`: the `RoundingDirection` enum. -/
def divIntByU64 (i u : Int) (dir : Nat) : R Int :=
  if u = 0 then er else
  let d := i * P18 * Pdiff      -- BigDecFromDecMut(i.ToLegacyDec())
  if dir = GammMath.RoundUp then pn (BigDec.quoRoundUp d (u * P36))
  else if dir = GammMath.RoundDown then pn (BigDec.quoInt d u)
  else if dir = GammMath.RoundBankers then pn (BigDec.quo d (u * P36))
  else er

def findSS (as : List SSAsset) (d : String) : Option SSAsset := as.find? (·.denom = d)

/-- `validateScalingFactors` on the pool's own factors (the length always matches). -/
def validSFs (as : List SSAsset) : Bool := as.all fun a => 0 < a.sf ∧ a.sf < 2 ^ 63

/-- `scaledSortedPoolReserves(first, second, round)`. -/
def scaledReserves (p : SSPool) (first second : String) (dir : Nat) : R (List Int) :=
  match findSS p.assets first, findSS p.assets second with
  | some a, some b =>
    if first = second then er
    else
      let others := p.assets.filter fun c => c.denom ≠ first ∧ c.denom ≠ second
      let ordered := a :: b :: others
      if ¬ validSFs ordered then er
      else ordered.mapM fun c => divIntByU64 c.amount c.sf dir
  | _, _ => er

/-- `scaleCoin`: an unknown denom has scaling factor 0 → error. -/
def scaleCoin (p : SSPool) (denom : String) (amt : Int) (dir : Nat) : R Int :=
  divIntByU64 amt (match findSS p.assets denom with | some a => a.sf | none => 0) dir

/-- `getDescaledPoolAmt`: `amount.MulInt64(sf).Dec()`. -/
def descale (p : SSPool) (denom : String) (amount : Int) : Option Int :=
  (BigDec.mulInt amount (match findSS p.assets denom with | some a => a.sf | none => 0)).bind BigDec.dec

/-- `oneMinus(spreadFactor)` as a BigDec. -/
def oneMinus (spread : Int) : Option Int := (Dec.sub P18 spread).map (· * Pdiff)

/-- `Pool.calcOutAmtGivenIn` (Dec result). -/
def ssOutDec (p : SSPool) (dIn : String) (amt : Int) (dOut : String) (spread : Int) : R Int := do
  let rs ← scaledReserves p dIn dOut GammMath.RoundDown
  match rs with
  | inSupply :: outSupply :: rem => do
    let tin ← scaleCoin p dIn amt GammMath.RoundDown
    let ammIn ← pn ((oneMinus spread).bind fun om => BigDec.mul tin om)
    let cfmmOut ← pn (solveCfmm outSupply inSupply rem ammIn)
    pn (descale p dOut cfmmOut)
  | _ => .error .panic

/-- `Pool.CalcOutAmtGivenIn`. -/
def ssCalcOut (p : SSPool) (tokensIn : Coins) (dOut : String) (spread : Int) : R Int :=
  match tokensIn with
  | [(dIn, amt)] => do
    let d ← ssOutDec p dIn amt dOut spread
    outTrunc d
  | _ => er

/-- `Pool.calcInAmtGivenOut` (Dec result). -/
def ssInDec (p : SSPool) (dOut : String) (amt : Int) (dIn : String) (spread : Int) : R Int := do
  let rs ← scaledReserves p dIn dOut GammMath.RoundDown
  match rs with
  | inSupply :: outSupply :: rem => do
    let tout ← scaleCoin p dOut amt GammMath.RoundUp
    let cfmmIn ← pn (solveCfmm inSupply outSupply rem (-tout))
    let inAmt ← pn ((oneMinus spread).bind fun om => BigDec.quoRoundUpMut (-cfmmIn) om)
    pn (descale p dIn inAmt)
  | _ => .error .panic

/-- `Pool.CalcInAmtGivenOut`. -/
def ssCalcIn (p : SSPool) (tokensOut : Coins) (dIn : String) (spread : Int) : R Int :=
  match tokensOut with
  | [(dOut, amt)] => do
    let d ← ssInDec p dOut amt dIn spread
    inCeil d
  | _ => er

/-- `validatePoolLiquidity` on a liquidity that is already sorted and aligned with the scaling factors. -/
def validLiquidity (as : List SSAsset) : R Unit :=
  if (as.length : Int) < GammMath.MinNumOfAssetsInPool then er
  else if (as.length : Int) > GammMath.MaxNumOfAssetsInPool then er
  else
    let rec go : List SSAsset → R Unit
      | [] => pure ()
      | a :: rest =>
        if a.sf = 0 then .error .panic      -- Int.Quo by zero
        else
          let q := a.amount.tdiv a.sf
          if q > GammMath.StableswapMaxScaledAmtPerAsset then er
          else if q < GammMath.StableswapMinScaledAmtPerAsset then er
          else go rest
    go as

/-- `PoolLiquidity.Add(coins…)` / `.Sub(coins…)` keeping the number of denoms (else panic). -/
def ssAddLiq (p : SSPool) (cs : Coins) : R (List SSAsset) :=
  if cs.any (fun c => (findSS p.assets c.1).isNone) then .error .panic
  else p.assets.mapM fun a => do
    let n ← iadd a.amount (amountOf cs a.denom)
    pure { a with amount := n }

def ssSubLiq (as : List SSAsset) (cs : Coins) : R (List SSAsset) :=
  if cs.any (fun c => (as.find? (·.denom = c.1)).isNone) then .error .panic
  else if as.any (fun a => a.amount - amountOf cs a.denom ≤ 0) then .error .panic  -- negative: Coins.Sub panics; zero: denom count changes
  else pure (as.map fun a => { a with amount := a.amount - amountOf cs a.denom })

/-- `SwapOutAmtGivenIn`. -/
def ssSwapOut (p : SSPool) (tokensIn : Coins) (dOut : String) (spread : Int) : R (Int × SSPool) := do
  -- a foreign denom makes `PoolLiquidity.Add` longer than the scaling factors: count-mismatch error
  if tokensIn.any (fun c => (findSS p.assets c.1).isNone) then er else do
  let post ← ssAddLiq p tokensIn
  validLiquidity post
  let out ← ssCalcOut p tokensIn dOut spread
  let as' ← ssSubLiq post [(dOut, out)]
  pure (out, { p with assets := as' })

/-- `SwapInAmtGivenOut`. -/
def ssSwapIn (p : SSPool) (tokensOut : Coins) (dIn : String) (spread : Int) : R (Int × SSPool) := do
  let tin ← ssCalcIn p tokensOut dIn spread
  let post ← ssAddLiq p [(dIn, tin)]
  validLiquidity post
  let as' ← ssSubLiq post tokensOut
  pure (tin, { p with assets := as' })

def ssCalcExit (p : SSPool) (exitingShares exitFee : Int) : R Coins :=
  calcExitPool (ssLiquidity p) p.totalShares exitingShares exitFee

/-- `ExitPool`. -/
def ssExit (p : SSPool) (exitingShares exitFee : Int) : R (Coins × SSPool) := do
  let cs ← ssCalcExit p exitingShares exitFee
  -- `PoolLiquidity.Sub(exitingCoins...)`: every exit amount is below its reserve, so no denom disappears
  if p.assets.any (fun a => a.amount - amountOf cs a.denom < 0) then .error .panic else do
  let post := p.assets.filter (fun a => a.amount - amountOf cs a.denom ≠ 0)
  let post := post.map fun a => { a with amount := a.amount - amountOf cs a.denom }
  -- a vanished denom: count mismatch in validatePoolLiquidity
  if post.length ≠ p.assets.length then er else do
  validLiquidity post
  let ts ← isub p.totalShares exitingShares
  pure (cs, { assets := post, totalShares := ts })

/-- `updatePoolForJoin`. -/
def ssUpdateForJoin (p : SSPool) (tokensIn : Coins) (newShares : Int) : R SSPool := do
  let as' ← ssAddLiq p tokensIn
  let ts ← iadd p.totalShares newShares
  pure { assets := as', totalShares := ts }

/-- `SwapAllCoinsToSingleAsset`. -/
def ssSwapAll (p : SSPool) (denom : String) (spread : Int) : Coins → Int → R Int
  | [], acc => pure acc
  | (d, a) :: cs, acc =>
    if d = denom then ssSwapAll p denom spread cs acc
    else do
      let (out, p') ← ssSwapOut p [(d, a)] denom spread
      let acc' ← iadd acc out
      ssSwapAll p' denom spread cs acc'

/-- `estimateCoinOutGivenShares` of `BinarySearchSingleAssetJoin`. -/
def ssEstimateCoinOut (p : SSPool) (denom : String) (afterFee sharesIn : Int) : R Int := do
  let p1 ← ssUpdateForJoin p (if afterFee = 0 then [] else [(denom, afterFee)]) sharesIn
  let (exited, p2) ← ssExit p1 sharesIn 0
  ssSwapAll p2 denom 0 exited (amountOf exited denom)

def singleJoinTol : ErrTol :=
  ⟨GammMath.singleJoinAdditiveTolerance, GammMath.singleJoinMultiplicativeTolerance, GammMath.singleJoinRoundingDir⟩

/-- `osmomath.BinarySearch` with an `f` that may return an error or panic. -/
def binarySearchR (f : Int → R Int) (tol : ErrTol) (target : Int) : Nat → Int → Int → R Int
  | 0, _, _ => er                          -- "hit maximum iterations"
  | it + 1, lo, hi => do
    let s ← iadd lo hi
    let est := s.tdiv 2
    let out ← f est
    let c ← pn (tol.compare target out)
    if c < 0 then binarySearchR f tol target it lo est
    else if c > 0 then binarySearchR f tol target it est hi
    else pure est

/-- `BinarySearchSingleAssetJoin`. -/
def ssBinarySearchSingleAssetJoin (p : SSPool) (denom : String) (afterFee : Int) : R Int := do
  let liqAmt := amountOf (ssLiquidity p) denom
  let prod ← imul p.totalShares afterFee
  let ub ← pn ((Dec.quoInt (toDec prod) liqAmt).bind fun q => (Dec.ceil q).bind Dec.truncateInt)
  binarySearchR (ssEstimateCoinOut p denom afterFee) singleJoinTol afterFee GammMath.singleJoinMaxIterations 0 ub

/-- `singleAssetJoinSpreadFactorRatio`. -/
def ssSpreadFactorRatio (p : SSPool) (dIn : String) : R Int := do
  let other ← match p.assets with
    | a0 :: rest =>
      if a0.denom = dIn then
        match rest with
        | a1 :: _ => pure a1.denom
        | [] => .error .panic               -- index out of range
      else pure a0.denom
    | [] => .error .panic
  let rs ← scaledReserves p dIn other GammMath.RoundDown
  match rs with
  | r0 :: _ => do
    let total ← pn (rs.foldlM (fun s r => BigDec.add s r) 0)
    let ratio ← pn (BigDec.quo r0 total)
    pn ((BigDec.dec ratio).bind fun d => Dec.sub P18 d)
  | [] => .error .panic

/-- `calcSingleAssetJoinShares`. -/
def ssCalcSingleAssetJoinShares (p : SSPool) (denom : String) (amt spread : Int) : R Int := do
  let ratio ← ssSpreadFactorRatio p denom
  let om ← pn ((Dec.mul spread ratio).bind fun m => Dec.sub P18 m)
  let afterFee ← pn ((Dec.mul (toDec amt) om).bind Dec.truncateInt)
  if afterFee < 0 then .error .panic       -- sdk.NewCoin of a negative amount
  else ssBinarySearchSingleAssetJoin p denom afterFee

/-- `joinPoolSharesInternal`. -/
def ssJoinInternal (p : SSPool) (tokensIn : Coins) (spread : Int) : R (Int × Coins × SSPool) :=
  if tokensIn.any (fun c => (findSS p.assets c.1).isNone) then er else do
    let single : Option (String × Int) := match tokensIn with
      | [(d, a)] => if a > 1 then some (d, a) else none
      | _ => none
    let (shares, joined) ←
      match single with
      | some (d, a) => do
        let s ← ssCalcSingleAssetJoinShares p d a spread
        pure (s, tokensIn)
      | none =>
        if tokensIn.length ≠ p.assets.length then er else do
          let (s, used) ← maximalExactRatioJoin (ssLiquidity p) p.totalShares tokensIn
          pure (s, joinedCoins tokensIn used)
    let p' ← ssUpdateForJoin p joined shares
    validLiquidity p'.assets
    pure (shares, joined, p')

/-- `CalcJoinPoolNoSwapShares`. -/
def ssCalcJoinNoSwap (p : SSPool) (tokensIn : Coins) : R (Int × Coins) :=
  if tokensIn.length ≠ p.assets.length ∨ tokensIn.any (fun c => (findSS p.assets c.1).isNone) then er else do
    let (s, used) ← maximalExactRatioJoin (ssLiquidity p) p.totalShares tokensIn
    if (tokensIn.zip used).any (fun (c, u) => u > c.2) then er    -- `IsAnyGT` (unreachable)
    else pure (s, joinedCoins tokensIn used)

def ssJoinNoSwap (p : SSPool) (tokensIn : Coins) : R (Int × SSPool) := do
  let (s, joined) ← ssCalcJoinNoSwap p tokensIn
  let p' ← ssUpdateForJoin p joined s
  pure (s, p')

end OsmoVerif.GammMath
