/-
Genesis export / import of x/lockup (keeper/genesis.go, `InitializeAllLocks` + `writeDurationValuesToAccumTree`
in keeper/lock.go, `GetPeriodLocks` in keeper/store.go) over the model of `Model/Lockup.lean`.  Core only.

* `ExportGenesis` = `{LastLockId, Locks: GetPeriodLocks, SyntheticLocks, Params}`.  `GetPeriodLocks` does NOT read
  the lock records store: it walks the reference index under `unlockingPrefix(b) ‖ KeyPrefixLockDuration`
  (key order = duration key, then lock id), loads each referenced lock (`GetLockByID`, panic when missing) and
  returns `notUnlockings ++ unlockings`.  A lock record without a `dur` index entry is therefore not exported;
  the accumulation store and the index itself are not exported at all.
* `InitGenesis`: params (nil → defaults), `SetLastLockID`, then `InitializeAllLocks`: per lock
  `setLock` + `addLockRefs` (an error RETURNS, and `InitGenesis` swallows it: the chain starts with whatever was
  written so far and no accumulation store), the accumulation entries are summed in a map
  `denom → duration → amount` and written once, denominations and durations ascending.
* `types.GenesisState.Validate` returns nil: nothing is rejected.
* Synthetic locks are not modelled (`Model/Lockup.lean`): the exported list is empty and
  `InitializeAllSyntheticLocks []` writes nothing.
* The bank is another module: `initGenesis` starts from a state that already carries the balances.
-/
import OsmoVerif.Model.Lockup
namespace OsmoVerif.Lockup

structure Genesis where
  lastLockId : Nat
  locks : List Lock
  /-- `nil` → `DefaultParams()` (no force-unlock address). -/
  params : Option (List Addr)
  deriving DecidableEq, Repr

/-- order of the store keys `… ‖ getDurationKey(d) ‖ lockID`. -/
def durEntryLE (a b : Int × Nat) : Bool := decide (a.1 < b.1 ∨ (a.1 = b.1 ∧ a.2 ≤ b.2))

/-- the index entries `LockIterator(ctx, isUnlocking)` walks, as (duration key, lock id), in key order. -/
def durEntries (s : State) (u : Bool) : List (Int × Nat) :=
  isortBy durEntryLE
    (s.refs.filterMap fun r => match r.1 with
      | ⟨u', IdxKey.dur d⟩ => if u' = u then some (d, r.2) else none
      | _ => none)

/-- `getLocksFromIterator`: `GetLockByID` of every entry; a reference to a missing lock panics. -/
def locksFromEntries (s : State) : List (Int × Nat) → Option (List Lock)
  | [] => some []
  | e :: es =>
    match getLock s e.2, locksFromEntries s es with
    | some l, some ls => some (l :: ls)
    | _, _ => none

/-- `GetPeriodLocks`. -/
def getPeriodLocks (s : State) : Option (List Lock) :=
  match locksFromEntries s (durEntries s true), locksFromEntries s (durEntries s false) with
  | some unlockings, some notUnlockings => some (notUnlockings ++ unlockings)
  | _, _ => none

/-- `ExportGenesis` (`none` = panic). -/
def exportGenesis (s : State) : Option Genesis :=
  (getPeriodLocks s).map fun ls => { lastLockId := s.lastLockId, locks := ls, params := some s.forceAllowed }

/-- the loop of `addLockRefs`: stops at the first existing entry (`false`), keeping what was written. -/
def addRefsP : List (RefKey × Nat) → List RefKey → Nat → List (RefKey × Nat) × Bool
  | refs, [], _ => (refs, true)
  | refs, k :: ks, id => if (k, id) ∈ refs then (refs, false) else addRefsP ((k, id) :: refs) ks id

/-- `setLockAndAddLockRefs`. -/
def setLockAndAddLockRefs (s : State) (l : Lock) : State × Bool :=
  let s1 := setLock s l
  let r := addRefsP s1.refs (indexKeys l) l.id
  ({ s1 with refs := r.1 }, r.2)

/-- the first loop of `InitializeAllLocks`. -/
def setAllLocks : State → List Lock → State × Bool
  | s, [] => (s, true)
  | s, l :: rest =>
    match setLockAndAddLockRefs s l with
    | (s1, true) => setAllLocks s1 rest
    | (s1, false) => (s1, false)

/-- `accumulationStoreEntries`: (denom, duration) ↦ Σ amounts. -/
def accumEntries (locks : List Lock) : List ((Denom × Int) × Int) :=
  locks.foldl (fun m l => l.coins.foldl (fun m c => aadd m (c.1, l.duration) c.2) m) []

/-- `sort.Strings(denoms)`, then `sort.Slice(durations)`. -/
def accumEntryLE (a b : (Denom × Int) × Int) : Bool :=
  decide (a.1.1 < b.1.1 ∨ (a.1.1 = b.1.1 ∧ a.1.2 ≤ b.1.2))

/-- `InitializeAllLocks`: `false` = it returned an error (before the accumulation store is written). -/
def initializeAllLocks (s : State) (locks : List Lock) : State × Bool :=
  match setAllLocks s locks with
  | (s1, false) => (s1, false)
  | (s1, true) =>
    ((isortBy accumEntryLE (accumEntries locks)).foldl (fun s e => accIncrease s e.1.1 e.1.2 e.2) s1, true)

/-- `InitGenesis` into the lockup store of `fresh` (a state with bank balances and an empty lockup store).
The `Bool` is not observable on chain (`InitGenesis` returns nothing and drops the error); it records whether
`InitializeAllLocks` completed. -/
def initGenesis (fresh : State) (g : Genesis) : State × Bool :=
  let s0 := { fresh with forceAllowed := (match g.params with | some p => p | none => []), lastLockId := g.lastLockId }
  initializeAllLocks s0 g.locks

/-- the lockup store emptied, the bank untouched. -/
def freshOf (s : State) : State := { bal := s.bal, modBal := s.modBal }

/-- export, wipe the lockup store, import (`none` = the export panicked). -/
def exportImport (s : State) : Option (State × Bool) :=
  (exportGenesis s).map fun g => initGenesis (freshOf s) g

end OsmoVerif.Lockup
