/-
Genesis export / import of x/concentrated-liquidity (genesis.go) for the ONE pool of `Model/CLPool.lean`: the pool
struct, its initialized ticks, its positions, the next position id.  Core only.

* `ExportGenesis`: per pool the struct (`GetPools`), `GetAllInitializedTicksForPool` (store order = ascending tick
  index), accumulators and incentive records (outside this model); `getAllPositions` (store order = ascending
  position id) with lock id and accumulator records (outside this model); `NextPositionId`.
* `InitGenesis`: `setPool`, `SetTickInfo` per tick, `SetPosition` per position (KV sets: insert at the key's place or
  overwrite), `SetNextPositionId`.  It also recomputes the module's total liquidity from the pool balances (F35) and
  panics on a position whose pool is not in the document (one pool here: cannot happen).
* The balances of the pool and of its spread-reward address belong to x/bank: `initGenesis` starts from a pool value
  that carries them (`freshOf`).
-/
import OsmoVerif.Model.CLPool
namespace OsmoVerif.CLPool

structure Genesis where
  spacing : Int
  spf : Int
  scale : Int
  sqrtPrice : Int
  tick : Int
  liquidity : Int
  ticks : List TickInfo
  positions : List Position
  nextPositionId : Nat
  deriving Repr, DecidableEq

/-- insertion by position id (the order of the position-id keys). -/
def insertPosById (x : Position) : List Position → List Position
  | [] => [x]
  | q :: qs => if x.id ≤ q.id then x :: q :: qs else q :: insertPosById x qs

def sortPosById : List Position → List Position
  | [] => []
  | q :: qs => insertPosById q (sortPosById qs)

/-- `ExportGenesis`. -/
def exportGenesis (p : Pool) : Genesis :=
  { spacing := p.spacing, spf := p.spf, scale := p.scale, sqrtPrice := p.sqrtPrice, tick := p.tick,
    liquidity := p.liquidity, ticks := p.ticks, positions := sortPosById p.positions, nextPositionId := p.nextId }

/-- `SetTickInfo`: KV set under the tick index. -/
def putTick : List TickInfo → TickInfo → List TickInfo
  | [], x => [x]
  | t :: ts, x => if x.tick < t.tick then x :: t :: ts else if x.tick = t.tick then x :: ts else t :: putTick ts x

/-- `SetPosition`: KV set under the position id. -/
def putPos : List Position → Position → List Position
  | [], x => [x]
  | q :: qs, x => if x.id < q.id then x :: q :: qs else if x.id = q.id then x :: qs else q :: putPos qs x

/-- the pool's CL store emptied, the bank balances kept. -/
def freshOf (p : Pool) : Pool := { spacing := 0, spf := 0, bal0 := p.bal0, bal1 := p.bal1, fee0 := p.fee0, fee1 := p.fee1 }

/-- `InitGenesis`. -/
def initGenesis (fresh : Pool) (g : Genesis) : Pool :=
  { fresh with spacing := g.spacing, spf := g.spf, scale := g.scale, sqrtPrice := g.sqrtPrice, tick := g.tick,
               liquidity := g.liquidity, ticks := g.ticks.foldl putTick [], positions := g.positions.foldl putPos [],
               nextId := g.nextPositionId }

def exportImport (p : Pool) : Pool := initGenesis (freshOf p) (exportGenesis p)

end OsmoVerif.CLPool
