/- line-protocol dispatch for the `accum` engine: `accum <op> <args…>` (see harness/cmd/pure/accum.go).
State = the model store + up to three handle slots (`h0`,`h1`,`h2`) modelling live
`*AccumulatorObject`s.  Dec = raw 18-decimal integer; DecCoins = `denom:raw,…` or `-`. -/
import OsmoVerif.Model.Accum
namespace OsmoVerif.Accum

structure AccumState where
  store : Store := Store.empty
  slots : List (String × Handle) := []

def initAccum : AccumState := {}

def parseCoin (s : String) : Option (String × Int) :=
  match s.splitOn ":" with
  | [d, a] => a.toInt?.map (fun x => (d, x))
  | _ => none

def parseCoinsList : List String → Option DecCoins
  | [] => some []
  | s :: t => match parseCoin s, parseCoinsList t with
    | some c, some r => some (c :: r)
    | _, _ => none

def parseCoins (s : String) : Option DecCoins :=
  if s = "-" then some [] else parseCoinsList (s.splitOn ",")

def showCoins (cs : List (String × Int)) : String :=
  if cs.isEmpty then "-" else ",".intercalate (cs.map (fun c => s!"{c.1}:{c.2}"))

def showOpt (b : Bool) : String := if b then "1" else "0"

def insertBy {α : Type} (lt : α → α → Bool) (x : α) : List α → List α
  | [] => [x]
  | y :: t => if lt x y then x :: y :: t else y :: insertBy lt x t

def sortBy {α : Type} (lt : α → α → Bool) (l : List α) : List α := l.foldr (insertBy lt) []

def pairLt (a b : String × String) : Bool := a.1 < b.1 || (a.1 = b.1 && a.2 < b.2)

def dump (s : AccumState) : String :=
  let accs := sortBy (fun a b => decide (a.1 < b.1)) s.store.accs
  let poss := sortBy (fun a b => pairLt a.1 b.1) s.store.poss
  let hs := sortBy (fun a b => decide (a.1 < b.1)) s.slots
  let a := ";".intercalate (accs.map (fun e => s!"{e.1}={showCoins e.2.value}/{e.2.total}"))
  let p := ";".intercalate (poss.map (fun e =>
    s!"{e.1.1}|{e.1.2}={e.2.shares}/{showCoins e.2.snap}/{showCoins e.2.unclaimed}/{showOpt e.2.opt}"))
  let h := ";".intercalate (hs.map (fun e => s!"{e.1}={e.2.name}/{showCoins e.2.value}/{e.2.total}"))
  s!"ok A[{a}] P[{p}] H[{h}]"

def showRes : Res Unit → String
  | .ok _ => "ok"
  | .err => "err"
  | .panic => "panic"

/-- run a handle method on slot `h`, storing the new store and handle. -/
def withSlot {α : Type} (s : AccumState) (h : String) (f : Store → Handle → Store × Handle × Res α)
    (sh : Res α → String) : AccumState × String :=
  match alookup s.slots h with
  | none => (s, "bad-op")
  | some hd =>
    let (st', hd', r) := f s.store hd
    ({ store := st', slots := aset s.slots h hd' }, sh r)

def parseBool (s : String) : Option Bool :=
  if s = "1" then some true else if s = "0" then some false else none

/-- names on op lines: the token `""` is the empty name (the line protocol splits on blanks) -/
def nameTok (t : String) : String := if t = "\"\"" then "" else t

def stepAccumRaw (s : AccumState) (op : String) (args : List String) : AccumState × String :=
  match op, args with
  | "reset", [] => (initAccum, "ok")
  | "make", [name] =>
    let (st', r) := makeAccumulator s.store name
    ({ s with store := st' }, showRes r)
  | "get", [h, name] =>
    match getAccumulator s.store name with
    | none => (s, "err")
    | some hd => ({ s with slots := aset s.slots h hd }, s!"ok {showCoins hd.value} {hd.total}")
  | "grow", [h, cs] =>
    match parseCoins cs with
    | some amt => withSlot s h (fun st hd => addToAccumulator st hd amt) showRes
    | none => (s, "bad-op")
  | "newpos", [h, pos, sh, o] =>
    match sh.toInt?, parseBool o with
    | some n, some b => withSlot s h (fun st hd => newPosition st hd pos n b) showRes
    | _, _ => (s, "bad-op")
  | "newposint", [h, pos, sh, cs, o] =>
    match sh.toInt?, parseCoins cs, parseBool o with
    | some n, some iv, some b => withSlot s h (fun st hd => newPositionInterval st hd pos n iv b) showRes
    | _, _, _ => (s, "bad-op")
  | "addpos", [h, pos, sh] =>
    match sh.toInt? with
    | some n => withSlot s h (fun st hd => addToPosition st hd pos n) showRes
    | none => (s, "bad-op")
  | "addposint", [h, pos, sh, cs] =>
    match sh.toInt?, parseCoins cs with
    | some n, some iv => withSlot s h (fun st hd => addToPositionInterval st hd pos n iv) showRes
    | _, _ => (s, "bad-op")
  | "rempos", [h, pos, sh] =>
    match sh.toInt? with
    | some n => withSlot s h (fun st hd => removeFromPosition st hd pos n) showRes
    | none => (s, "bad-op")
  | "remposint", [h, pos, sh, cs] =>
    match sh.toInt?, parseCoins cs with
    | some n, some iv => withSlot s h (fun st hd => removeFromPositionInterval st hd pos n iv) showRes
    | _, _ => (s, "bad-op")
  | "updpos", [h, pos, sh] =>
    match sh.toInt? with
    | some n => withSlot s h (fun st hd => updatePosition st hd pos n) showRes
    | none => (s, "bad-op")
  | "updposint", [h, pos, sh, cs] =>
    match sh.toInt?, parseCoins cs with
    | some n, some iv => withSlot s h (fun st hd => updatePositionInterval st hd pos n iv) showRes
    | _, _ => (s, "bad-op")
  | "setint", [h, pos, cs] =>
    match parseCoins cs with
    | some iv => withSlot s h (fun st hd => setPositionInterval st hd pos iv) showRes
    | none => (s, "bad-op")
  | "addunclaimed", [h, pos, cs] =>
    match parseCoins cs with
    | some amt => withSlot s h (fun st hd => addToUnclaimedRewards st hd pos amt) showRes
    | none => (s, "bad-op")
  | "claim", [h, pos] =>
    withSlot s h (fun st hd => claimRewards st hd pos) (fun r => match r with
      | .ok (tc, dust) => s!"ok {showCoins tc} {showCoins dust}"
      | .err => "err"
      | .panic => "panic")
  | "delete", [h, pos] =>
    withSlot s h (fun st hd => deletePosition st hd pos) (fun r => match r with
      | .ok out => s!"ok {showCoins out}"
      | .err => "err"
      | .panic => "panic")
  | "getpos", [h, pos] =>
    match alookup s.slots h with
    | none => (s, "bad-op")
    | some hd => match getPosition s.store hd pos with
      | none => (s, "err")
      | some r => (s, s!"ok {r.shares} {showCoins r.snap} {showCoins r.unclaimed} {showOpt r.opt}")
  | "possize", [h, pos] =>
    match alookup s.slots h with
    | none => (s, "bad-op")
    | some hd => match getPositionSize s.store hd pos with
      | none => (s, "err")
      | some n => (s, s!"ok {n}")
  | "haspos", [h, pos] =>
    match alookup s.slots h with
    | none => (s, "bad-op")
    | some hd => (s, if hasPosition s.store hd pos then "ok 1" else "ok 0")
  | "value", [h] =>
    match alookup s.slots h with
    | none => (s, "bad-op")
    | some hd => (s, s!"ok {showCoins (getValue hd)}")
  | "total", [h] =>
    match alookup s.slots h with
    | none => (s, "bad-op")
    | some hd => (s, s!"ok {getTotalShares hd}")
  | "rewards", [h, pos] =>
    match alookup s.slots h with
    | none => (s, "bad-op")
    | some hd => match getPosition s.store hd pos with
      | none => (s, "err")
      | some r => match getTotalRewards hd r with
        | none => (s, "panic")
        | some t => (s, s!"ok {showCoins t}")
  | "dump", [] => (s, dump s)
  | _, _ => (s, "bad-op")

/-- position names are the second argument of every op that has one (`<op> <handle> <pos> …`) -/
def stepAccum (s : AccumState) (op : String) (args : List String) : AccumState × String :=
  match op, args with
  | "make", _ | "get", _ | "grow", _ | "value", _ | "total", _ | "reset", _ | "dump", _ => stepAccumRaw s op args
  | _, h :: pos :: rest => stepAccumRaw s op (h :: nameTok pos :: rest)
  | _, _ => stepAccumRaw s op args

end OsmoVerif.Accum
