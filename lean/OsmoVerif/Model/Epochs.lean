/- Executable model of `x/epochs` (C17): epoch timers + contained subscriber hooks.  Core Lean only.

Code mirrored (all under /repo):
* `x/epochs/keeper/abci.go`   `BeginBlocker`            → `processTimer`, `processTimers`, `beginBlock`
* `x/epochs/keeper/epoch.go`  `AddEpochInfo`, `IterateEpochInfo`, `setEpochInfo` → `addEpochInfo`, list order
* `x/epochs/types/genesis.go` `EpochInfo.Validate`      → `validate`
* `x/epochs/types/hooks.go`   `MultiEpochHooks.*`, `panicCatchingEpochHook` → `runHooksFrom`
* `osmoutils/cache_ctx.go`    `ApplyFuncIfNoError`, `IsOutOfGasError` → `applyIfNoError`

Representation.
* A `time.Time` is an `Int`: nanoseconds since Go's zero time `time.Time{}` (0001-01-01T00:00:00Z), so
  `time.Time{}` is `0`, `Before/After/Equal` are `<`/`>`/`=` and `Add d` is `+ d` (`time.Duration` = Int ns).
  Assumption (trusted, listed in props.py): all times stay inside the range in which Go's `time.Time`
  arithmetic is exact and gogoproto can marshal them (years 1…9999); `int64` wrap of the epoch counter /
  height is not modelled (2^63 ticks).
* The epochs store (`0x01 ++ identifier` → proto) is the list `timers`, kept in identifier byte order
  (Lean's `String` `<` is lexicographic on code points = UTF-8 byte order), which is the order
  `IterateEpochInfo` visits them.
* Subscribers: `subs : List Store`, position = registration order in `MultiEpochHooks`; a `Store` is the
  subscriber's own key/value store as an association list sorted by key.
* A block carries a *script*: for every `(timer identifier, signal kind, subscriber index)` what that hook
  invocation does: the writes it performs on the (cache) context it is given, then its outcome.

Out-of-gas.  `ApplyFuncIfNoError` re-panics for `ErrorOutOfGas`/`ErrorGasOverflow` *values*; nothing up the
stack recovers, so `BeginBlocker` itself panics.  `beginBlock` then reports `panicked = true` together with
the partial state at the moment of the panic (what a reader of the same context would see: timers already
processed are updated, the current timer is updated iff the panic came from `BeforeEpochStart` — the
`setEpochInfo` sits between the two hook calls —, earlier hooks' committed writes are present, the
out-of-gas hook's own writes are not).  A panicking BeginBlocker fails the block, which is never
committed: `stepBlock` rolls the state back to the pre-block state and contributes nothing to the
signal history. -/
namespace OsmoVerif.Epochs

structure EpochInfo where
  identifier : String
  startTime : Int
  duration : Int
  currentEpoch : Int
  currentEpochStartTime : Int
  epochCountingStarted : Bool
  currentEpochStartHeight : Int
  deriving DecidableEq, Repr, Inhabited

inductive Kind | epochEnd | epochStart
  deriving DecidableEq, Repr

/-- how a hook invocation terminates.  `oog` = panic with a value for which
`osmoutils.IsOutOfGasError` is true (`ErrorOutOfGas{}` / `ErrorGasOverflow{}` values);
`panic` = any other panic value (string, runtime.Error, error, even `*ErrorOutOfGas`). -/
inductive Outcome | ok | err | panic | oog
  deriving DecidableEq, Repr

structure HookRun where
  outcome : Outcome
  writes : List (String × String)
  deriving Repr

abbrev Store := List (String × String)

/-- `KVStore.Set` on a sorted association list. -/
def Store.set : Store → String → String → Store
  | [], k, v => [(k, v)]
  | (k', v') :: r, k, v =>
    if k < k' then (k, v) :: (k', v') :: r
    else if k = k' then (k, v) :: r
    else (k', v') :: Store.set r k v

def applyWrites (s : Store) (ws : List (String × String)) : Store :=
  ws.foldl (fun s kv => Store.set s kv.1 kv.2) s

/-- `osmoutils.ApplyFuncIfNoError` seen from one subscriber's store: the hook runs on a cache
(copy), `write()` iff it returned nil; error and ordinary panic drop the cache; out-of-gas is
re-panicked (`none`). -/
def applyIfNoError (s : Store) (r : HookRun) : Option Store :=
  let cache := applyWrites s r.writes
  match r.outcome with
  | .ok => some cache
  | .err => some s
  | .panic => some s
  | .oog => none

/-- a signal raised by the keeper: `k.AfterEpochEnd(id, n)` / `k.BeforeEpochStart(id, n)` -/
structure Signal where
  timer : String
  kind : Kind
  epoch : Int
  deriving DecidableEq, Repr

/-- one subscriber hook invocation -/
structure Call where
  timer : String
  kind : Kind
  epoch : Int
  sub : Nat
  deriving DecidableEq, Repr

structure HooksOut where
  subs : List Store
  invoked : List Nat
  panicked : Bool

/-- `MultiEpochHooks.{AfterEpochEnd,BeforeEpochStart}`: `for _, hook := range h { panicCatchingEpochHook … }`,
subscriber `i` behaves as `f i`.  Stops at the first out-of-gas (the panic unwinds the loop). -/
def runHooksFrom (f : Nat → HookRun) : Nat → List Store → HooksOut
  | _, [] => { subs := [], invoked := [], panicked := false }
  | i, st :: rest =>
    match applyIfNoError st (f i) with
    | none => { subs := st :: rest, invoked := [i], panicked := true }
    | some st' =>
      let o := runHooksFrom f (i + 1) rest
      { subs := st' :: o.subs, invoked := i :: o.invoked, panicked := o.panicked }

abbrev Script := String → Kind → Nat → HookRun

structure TimerOut where
  info : EpochInfo          -- what the store holds for this timer afterwards
  subs : List Store
  signals : List Signal
  calls : List Call
  panicked : Bool

def mkCalls (id : String) (k : Kind) (n : Int) (invoked : List Nat) : List Call :=
  invoked.map (fun i => { timer := id, kind := k, epoch := n, sub := i })

/-- body of the `IterateEpochInfo` callback in `BeginBlocker` for one timer. -/
def processTimer (t h : Int) (scr : Script) (e : EpochInfo) (subs : List Store) : TimerOut :=
  let unchanged : TimerOut := { info := e, subs := subs, signals := [], calls := [], panicked := false }
  -- if ctx.BlockTime().Before(epochInfo.StartTime) { return }
  if t < e.startTime then unchanged
  else
    let shouldInitialEpochStart := !e.epochCountingStarted
    let epochEndTime := e.currentEpochStartTime + e.duration
    let shouldEpochStart := decide (t > epochEndTime) || shouldInitialEpochStart
    if !shouldEpochStart then unchanged
    else
      let e1 := { e with currentEpochStartHeight := h }
      if shouldInitialEpochStart then
        let e2 := { e1 with epochCountingStarted := true, currentEpoch := 1, currentEpochStartTime := e1.startTime }
        -- setEpochInfo; BeforeEpochStart
        let r := runHooksFrom (scr e.identifier .epochStart) 0 subs
        { info := e2, subs := r.subs, signals := [⟨e.identifier, .epochStart, e2.currentEpoch⟩],
          calls := mkCalls e.identifier .epochStart e2.currentEpoch r.invoked, panicked := r.panicked }
      else
        -- AfterEpochEnd(current epoch) runs before anything is stored
        let r1 := runHooksFrom (scr e.identifier .epochEnd) 0 subs
        let s1 : Signal := ⟨e.identifier, .epochEnd, e.currentEpoch⟩
        let c1 := mkCalls e.identifier .epochEnd e.currentEpoch r1.invoked
        if r1.panicked then
          { info := e, subs := r1.subs, signals := [s1], calls := c1, panicked := true }
        else
          let e2 := { e1 with currentEpoch := e1.currentEpoch + 1,
                              currentEpochStartTime := e1.currentEpochStartTime + e1.duration }
          -- setEpochInfo; BeforeEpochStart(new epoch)
          let r2 := runHooksFrom (scr e.identifier .epochStart) 0 r1.subs
          { info := e2, subs := r2.subs, signals := [s1, ⟨e.identifier, .epochStart, e2.currentEpoch⟩],
            calls := c1 ++ mkCalls e.identifier .epochStart e2.currentEpoch r2.invoked, panicked := r2.panicked }

structure BlockOut where
  timers : List EpochInfo
  subs : List Store
  signals : List Signal
  calls : List Call
  panicked : Bool

/-- `IterateEpochInfo` over the store in key order; a panic unwinds the iteration. -/
def processTimers (t h : Int) (scr : Script) : List EpochInfo → List Store → BlockOut
  | [], subs => { timers := [], subs := subs, signals := [], calls := [], panicked := false }
  | e :: rest, subs =>
    let r := processTimer t h scr e subs
    if r.panicked then
      { timers := r.info :: rest, subs := r.subs, signals := r.signals, calls := r.calls, panicked := true }
    else
      let o := processTimers t h scr rest r.subs
      { timers := r.info :: o.timers, subs := o.subs, signals := r.signals ++ o.signals,
        calls := r.calls ++ o.calls, panicked := o.panicked }

structure State where
  timers : List EpochInfo
  subs : List Store

structure Block where
  t : Int
  h : Int
  script : Script

def initState (k : Nat) : State := { timers := [], subs := List.replicate k [] }

/-- `BeginBlocker`; the result is the state visible in the block's context when BeginBlocker
returns or panics. -/
def beginBlock (s : State) (b : Block) : BlockOut := processTimers b.t b.h b.script s.timers s.subs

/-- the committed effect of a block: a panicking BeginBlocker fails the block (rolled back). -/
def stepBlock (s : State) (b : Block) : State :=
  let o := beginBlock s b
  if o.panicked then s else { timers := o.timers, subs := o.subs }

/-- signals of the block that become part of the committed history -/
def committedSignals (s : State) (b : Block) : List Signal :=
  let o := beginBlock s b
  if o.panicked then [] else o.signals

/-! ### what a subscriber sees when it queries the epochs keeper from INSIDE a signal

`BeginBlocker` raises `AfterEpochEnd(n)` before anything of the tick is stored and `BeforeEpochStart(n+1)`
AFTER `setEpochInfo` (abci.go: "emit new epoch start event, set epoch info, and run BeforeEpochStart hook"):
during end-of-epoch `n` the store still holds the record of epoch `n`; during start-of-epoch `n+1` it already
holds the ticked record (epoch `n+1`, its start time, this block's height, counting started).  Timers earlier
in the iteration order have already been processed, later ones not yet. -/

structure View where
  call : Call
  own : EpochInfo            -- `GetEpochInfo(identifier of the signalling timer)` inside the hook
  all : List EpochInfo       -- `AllEpochInfos` inside the hook
  sinceStart : Int           -- `NumBlocksSinceEpochStart` = block height − stored start height
  deriving Repr

/-- the stored record of the signalling timer during a signal: `pre` = before the block, `post` = what
`processTimer` stores. -/
def seenDuring (pre post : EpochInfo) : Kind → EpochInfo
  | .epochEnd => pre
  | .epochStart => post

def viewsFrom (t h : Int) (scr : Script) : List EpochInfo → List EpochInfo → List Store → List View
  | _, [], _ => []
  | done, e :: rest, subs =>
    let r := processTimer t h scr e subs
    let vs := r.calls.map fun c =>
      let own := seenDuring e r.info c.kind
      ({ call := c, own := own, all := done ++ own :: rest, sinceStart := h - own.currentEpochStartHeight } : View)
    if r.panicked then vs else vs ++ viewsFrom t h scr (done ++ [r.info]) rest r.subs

/-- one view per hook invocation of the block, in invocation order. -/
def blockViews (s : State) (b : Block) : List View := viewsFrom b.t b.h b.script [] s.timers s.subs

/-- `EpochInfo.Validate` -/
def validate (e : EpochInfo) : Bool :=
  e.identifier ≠ "" && e.duration ≠ 0 && decide (0 ≤ e.currentEpoch) && decide (0 ≤ e.currentEpochStartHeight)

def insertTimer (e : EpochInfo) : List EpochInfo → List EpochInfo
  | [] => [e]
  | x :: r => if e.identifier < x.identifier then e :: x :: r else x :: insertTimer e r

/-- `AddEpochInfo` under a context with block time `ctxT` and height `ctxH`; `none` = error returned. -/
def addEpochInfo (ctxT ctxH : Int) (e : EpochInfo) (s : State) : Option State :=
  if !validate e then none
  else if s.timers.any (fun x => x.identifier == e.identifier) then none
  else
    let e1 := if e.startTime = 0 then { e with startTime := ctxT } else e
    let e2 := { e1 with currentEpochStartHeight := ctxH }
    some { s with timers := insertTimer e2 s.timers }

end OsmoVerif.Epochs
