/- `#audit_ns Foo.Bar` lists every theorem declared in namespace `Foo.Bar` (in the
current environment) with the axioms it depends on, one per line:
  AUDIT <name> | <axiom> <axiom> …
The check script counts a theorem as discharged iff its axioms ⊆
{propext, Classical.choice, Quot.sound}. -/
import Lean
open Lean Elab Command

elab "#audit_ns " ns:ident : command => do
  let env ← getEnv
  let nsName := ns.getId
  let mut names : Array Name := #[]
  for (n, ci) in env.constants.map₁.toList ++ env.constants.map₂.toList do
    -- equation / unfolding lemmas the elaborator generates for definitions made inside a Props file are not property theorems
    let auto := match n with
      | .str _ s => s == "eq_def" || s == "eq_unfold" || (s.startsWith "eq_" && (s.drop 3).all Char.isDigit)
      | _ => false
    if nsName.isPrefixOf n && !n.isInternal && !auto then
      match ci with
      | .thmInfo _ => names := names.push n
      | _ => pure ()
  let sorted := names.qsort (fun a b => a.toString < b.toString)
  for n in sorted do
    let axs ← liftCoreM (collectAxioms n)
    let axs := axs.qsort (fun a b => a.toString < b.toString)
    logInfo m!"AUDIT {n} | {" ".intercalate (axs.toList.map toString)}"
