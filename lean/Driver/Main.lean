/- Line-protocol driver: `<engine> <op> <args…>` per line on stdin, one result line out.
Core-only so that it links as a `lean_exe`. -/
import OsmoVerif.Model.DrvNum
import OsmoVerif.Model.DrvMath
import OsmoVerif.Model.DrvMint

open OsmoVerif

structure St where
  mint : Mint.DrvState := Mint.initMint

def step (st : St) (line : String) : St × String :=
  match (line.trimAscii.toString.splitOn " ").filter (· ≠ "") with
  | "num" :: op :: args => (st, Num.stepNum op args)
  | "math" :: op :: args => (st, MathM.stepMath op args)
  | "tick" :: op :: args => (st, Tick.stepTick op args)
  | "mint" :: op :: args => let (m, o) := Mint.stepMint st.mint op args; ({ st with mint := m }, o)
  | _ => (st, "bad-op")

partial def loop (h : IO.FS.Stream) (out : IO.FS.Stream) (st : St) : IO Unit := do
  let line ← h.getLine
  if line.isEmpty then return ()
  let (st', o) := step st line
  out.putStrLn o
  loop h out st'

def main : IO Unit := do
  let out ← IO.getStdout
  loop (← IO.getStdin) out {}
  out.flush
