/- Line-protocol driver: `<engine> <op> <args…>` per line on stdin, one result line out.
Core-only so that it links as a `lean_exe`. -/
import OsmoVerif.Model.DrvNum
import OsmoVerif.Model.DrvMath
import OsmoVerif.Model.DrvMint
import OsmoVerif.Model.DrvPoolManager
import OsmoVerif.Model.DrvGammG
import OsmoVerif.Model.DrvDet
import OsmoVerif.Model.DrvSuperfluid
import OsmoVerif.Model.DrvGamm4
import OsmoVerif.Model.DrvIncentives
import OsmoVerif.Model.DrvRouter
import OsmoVerif.Model.DrvTwap
import OsmoVerif.Model.DrvGamm
import OsmoVerif.Model.DrvCL
import OsmoVerif.Model.DrvCLPool
import OsmoVerif.Model.DrvCLFees
import OsmoVerif.Model.DrvCLInc
import OsmoVerif.Model.DrvSumTree
import OsmoVerif.Model.DrvEpochs
import OsmoVerif.Model.DrvAccum
import OsmoVerif.Model.DrvAuth
import OsmoVerif.Model.DrvLockup

open OsmoVerif

structure St where
  mint : Mint.DrvState := Mint.initMint
  pm : Router.PMState := Router.initPM
  gammg : Gamm.GState := Gamm.initGammG
  superfluid : Superfluid.DrvState := Superfluid.initSuperfluid
  incentives : Incentives.State := Incentives.initIncentives
  router : Router.FeeCfg := Router.initRouter
  twap : Twap.DrvState := Twap.initTwap
  gamm : Gamm.State := Gamm.initGamm
  clp : CLInc.Full := CLInc.initCLInc
  sumtree : SumTree.Store := SumTree.initSumTree
  epochs : Epochs.State := Epochs.initEpochs
  accum : Accum.AccumState := Accum.initAccum
  auth : Auth.State := Auth.initAuth
  lockup : Lockup.State := Lockup.initLockup

def step (st : St) (line : String) : St × String :=
  match (line.trimAscii.toString.splitOn " ").filter (· ≠ "") with
  | "num" :: op :: args => (st, Num.stepNum op args)
  | "math" :: op :: args => (st, MathM.stepMath op args)
  | "tick" :: op :: args => (st, Tick.stepTick op args)
  | "cl" :: op :: args => (st, CL.stepCL op args)
  | "sumtree" :: op :: args =>
    let r := SumTree.stepSumTree st.sumtree op args
    ({ st with sumtree := r.1 }, r.2)
  | "epochs" :: op :: args => let (e, o) := Epochs.stepEpochs st.epochs op args; ({ st with epochs := e }, o)
  | "accum" :: op :: args => let (a, o) := Accum.stepAccum st.accum op args; ({ st with accum := a }, o)
  | "clp" :: op :: args => let (c, o) := CLInc.stepCLInc st.clp op args; ({ st with clp := c }, o)
  | "auth" :: op :: args => let (a, o) := Auth.stepAuth st.auth op args; ({ st with auth := a }, o)
  | "lockup" :: op :: args => let (m, o) := Lockup.stepLockup st.lockup op args; ({ st with lockup := m }, o)
  | "gamm" :: op :: args => let (x, o) := Gamm.stepGamm st.gamm op args; ({ st with gamm := x }, o)
  | "twap" :: op :: args => let (x, o) := Twap.stepTwap st.twap op args; ({ st with twap := x }, o)
  | "router" :: op :: args => let (x, o) := Router.stepRouter st.router op args; ({ st with router := x }, o)
  | "incentives" :: op :: args => let (x, o) := Incentives.stepIncentives st.incentives op args; ({ st with incentives := x }, o)
  | "gammmath" :: op :: args => (st, GammMath.stepGammMath op args)
  | "superfluid" :: op :: args => let (x, o) := Superfluid.stepSuperfluid st.superfluid op args; ({ st with superfluid := x }, o)
  | "det" :: op :: args => (st, Det.stepDet op args)
  | "pm" :: op :: args => let (x, o) := Router.stepPM st.pm op args; ({ st with pm := x }, o)
  | "gammg" :: op :: args => let (x, o) := Gamm.stepGammG st.gammg op args; ({ st with gammg := x }, o)
  | "mint" :: op :: args => let (m, o) := Mint.stepMint st.mint op args; ({ st with mint := m }, o)
  | _ => (st, "bad-op")

partial def loop (h : IO.FS.Stream) (out : IO.FS.Stream) (st : St) : IO Unit := do
  let line ← h.getLine
  if line.isEmpty then return ()
  let (st', o) := step st line
  out.putStrLn o
  loop h out st'

def main : IO Unit := do
  let out ← IO.getStdout
  loop (← IO.getStdin) out {}
  out.flush
