import OsmoVerif.Audit
import OsmoVerif.Props.C12
import OsmoVerif.Props.C13
import OsmoVerif.Props.C14
import OsmoVerif.Props.C18
import OsmoVerif.Props.C14Mono
