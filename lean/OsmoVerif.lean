import OsmoVerif.Audit
import OsmoVerif.Props.C12
