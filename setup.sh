#!/bin/sh
# Offline build of the whole framework from files on disk (MANIFEST.setup_cmd).
set -e
cd "$(dirname "$0")"
mkdir -p .bin .scratch evidence replay lean/OsmoVerif/Gen
(cd tools/extract && GOFLAGS=-mod=mod GOWORK=off GOPROXY=off GOTOOLCHAIN=local go build -o ../../.bin/extract .)
./.bin/extract lean/OsmoVerif/Gen /repo
(cd lean && lake build)
cp /repo/go.work.sum harness/go.work.sum
python3 - <<'PY'
import sys, os
sys.argv = ["check"]
sys.path.insert(0, "tools")
import importlib.util, importlib.machinery
loader = importlib.machinery.SourceFileLoader("check", "./check")
spec = importlib.util.spec_from_loader("check", loader)
mod = importlib.util.module_from_spec(spec)
loader.exec_module(mod)
from props import PROPS
kinds = sorted({e["kind"] for p in PROPS.values() for e in p["engines"]})
from concurrent.futures import ThreadPoolExecutor
def b(k):
    ok, out = mod.build_engine(k)
    print("engine", k, "ok" if ok else "FAILED\n" + out[-3000:], flush=True)
    return ok
# first one alone (populates the shared go build cache), the rest in parallel
res = [b(kinds[0])] if kinds else []
with ThreadPoolExecutor(max_workers=4) as ex:
    res += list(ex.map(b, kinds[1:]))
sys.exit(0 if all(res) else 1)
PY
echo setup-ok
